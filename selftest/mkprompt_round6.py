#!/usr/bin/env python3
"""Prompt for one round-6 sub-agent: property text + scratch worktree only (nothing from /verif)."""
import json, glob, sys
pid = sys.argv[1]; rnd = sys.argv[2]
props = {json.loads(l)['id']: json.loads(l) for l in open('/verif/properties.jsonl')}
p = props[pid]
wt = '/var/tmp/%s_%s' % (rnd, pid)
out = '/var/tmp/%s_%s_out' % (rnd, pid)
print(f"""You are helping to evaluate how well a test/verification setup for the C++ header-only library fastscapelib
(landscape evolution: grids, flow graphs, flow routers, sink resolvers, eroders, a small thread pool) detects regressions.
Your job: act as a developer who introduces a REALISTIC, SUBTLE BUG.

Your private scratch git worktree of the repository is {wt} (create it first with:
  git -C /repo worktree add --detach {wt} HEAD
). Work ONLY in {wt} and in your output directory {out} (mkdir -p it). NEVER modify /repo itself, never read or write
anything under /verif, and do not look at other directories under /var/tmp. Do NOT use `git stash` (the stash is shared by all
worktrees of /repo and other people work in parallel): to switch between changed / unchanged library use
`git diff > /some/file.diff; git apply -R /some/file.diff; ...; git apply /some/file.diff`.

The property (a semantic guarantee users rely on) that your change must break:

  [{pid}] {p['title']}
  {p['statement']}

Deliver ONE change, in {out}/1/ :
  patch.diff   - `git diff` of the change against HEAD (library headers under include/ only; do not touch tests), must apply with `git apply`
  demo.cpp     - a small standalone C++17 program (compiled with: g++ -std=c++17 -O1 -g -I<worktree>/include -pthread demo.cpp;
                 if it needs -fsanitize=thread or =address to show the problem, say so in meta.json "demo_flags") that exits 0
                 on the unchanged library and exits non-zero (printing what went wrong) with your change applied
  meta.json    - {{"summary": "...what the change does...", "needs_to_manifest": "...the specific condition...", "files": [...], "demo_flags": ""}}

Requirements for each change:
 1. The library still compiles and the repository's own test-suite still passes completely with the change:
      cd {wt} && cmake -G Ninja -B build -DFS_BUILD_TESTS=ON -DCMAKE_BUILD_TYPE=RelWithDebInfo -DCMAKE_CXX_FLAGS=-Wno-error -DGTest_DIR=/root/miniconda/lib/cmake/GTest && cmake --build build -j6 && ctest --test-dir build -j6 --timeout 900
    (everything is offline; all dependencies are installed; expect "100% tests passed ... out of 153").
 2. It looks like something a maintainer could plausibly commit (an optimisation, a refactoring, a caching layer, a
    "simplification", a changed comparison, reordered statements, a relaxed memory order, a reused buffer ...), not sabotage,
    and it does not special-case magic inputs.
 3. It needs something SPECIFIC to manifest - a particular interleaving, a multi-step sequence of operations on the same
    objects, an unusual but legal input (ties, plateaus, masks, looped borders, anisotropic spacing, tiny/huge values,
    particular sizes, particular parameter values), or two cooperating sites that each look fine alone - rather than
    failing at once under ordinary use. Prefer changes whose effect is small or rare.
 4. Prefer a mechanism that spans two cooperating sites, or that depends on object life-time, call order, reuse of an object across calls, sizes, numeric range or threading - something a reviewer would wave through.
 5. Your demo must be deterministic enough: fail at least 2 of 3 runs with the change, pass 3 of 3 without.

Ideas for where such changes hide (pick what fits the property, or something else entirely): an error / exception path that leaves an
object half-updated; an object that is copied, moved, re-assigned or outlives the object it was made from; a second call on the same object
with other sizes or parameters; a value that only matters at a size, count or magnitude ordinary tests never reach; an overload, template
parameter or container type (float data, column-major, views, expressions) the main path does not use; a boundary between two modules where
each side assumes the other one normalises / clears / re-computes something; memory ordering or a shared buffer that only matters when two
calls overlap in time.

Start by reading the relevant headers under {wt}/include/fastscapelib and the tests under {wt}/test to see what the
existing suite covers (so your change slips past it). Verify everything yourself (suite passes with each change; demo fails
with / passes without). When done, remove the build output and your worktree:
  rm -rf {wt}/build; git -C /repo worktree remove --force {wt}
and reply with a short summary of the change (what, where, what is needed to manifest, demo flags).""")
