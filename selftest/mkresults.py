#!/usr/bin/env python3
"""Build selftest/RESULTS.md from selftest/RESULTS.json and the run logs (selftest/log_*.txt)."""
import json, os, re, glob, ast
V = os.path.dirname(os.path.dirname(os.path.abspath(__file__)))
res = {}
rp = os.path.join(V, 'selftest', 'RESULTS.json')
if os.path.exists(rp):
    for k, v in json.load(open(rp)).items():
        own = list(v['checks'].items())
        res[k] = {'checks': {p: (c['exit'], c['violation_keys'], c['wall_s']) for p, c in own}, 'tier': v.get('tier', 'quick')}
for f in sorted(glob.glob(os.path.join(V, 'selftest', 'log_*.txt'))):
    for ln in open(f):
        m = re.match(r'^(\S+) (DETECTED|MISSED\(exit (\S+)\)) (\[.*\]) (\d+)\s*$', ln)
        if not m:
            continue
        sid = m.group(1)
        if sid in res:
            continue
        meta = json.load(open(os.path.join(V, 'seeded', sid, 'meta.json')))
        try:
            keys = ast.literal_eval(m.group(4))
        except Exception:
            keys = [m.group(4)[:200]]
        res[sid] = {'checks': {meta['property']: (1 if m.group(2) == 'DETECTED' else int(m.group(3)) if m.group(3).isdigit() else m.group(3), keys, int(m.group(5)))}, 'tier': 'quick'}
lines = ['# Calibration results: seeded changes vs checks', '',
         'Each row: a change to fastscape-lem/fastscapelib that compiles and passes the repository test-suite (confirmed in a scratch',
         'worktree, see `seeded/<id>/meta.json`), applied to a scratch copy of `/repo/include`, and the check of the property it breaks',
         'run against it (`selftest/run_seeded.py`). `FIX-<D>` rows are the reverts of the `fix:` commits (defects of the original tree).',
         '', '| id | property | what it needs to manifest | check | tier | exit | violation keys reported | s |', '|---|---|---|---|---|---|---|---|']
det = tot = 0
for sid in sorted(res):
    meta = json.load(open(os.path.join(V, 'seeded', sid, 'meta.json')))
    for p, (ex, keys, wall) in res[sid]['checks'].items():
        own = p == meta['property']
        if own:
            tot += 1
            det += 1 if ex == 1 and keys else 0
        needs = (meta.get('needs_to_manifest') or meta.get('summary') or '').replace('\n', ' ').replace('|', '/')[:220]
        lines.append('| %s | %s | %s | %s | %s | %s | %s | %s |' % (sid, meta['property'], needs, p, res[sid]['tier'], ex, ', '.join('`%s`' % k for k in keys[:4]), wall))
lines += ['', 'Detected by the check of the broken property: **%d / %d**.' % (det, tot)]
open(os.path.join(V, 'selftest', 'RESULTS.md'), 'w').write('\n'.join(lines) + '\n')
print('%d / %d detected' % (det, tot))
