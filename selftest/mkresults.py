#!/usr/bin/env python3
"""Build selftest/RESULTS.md: for every seeded change the FIRST run of the check of the broken property (from the run logs,
i.e. the machinery as it was when the change arrived) and the LATEST run (selftest/RESULTS.json)."""
import json, os, re, glob, ast
V = os.path.dirname(os.path.dirname(os.path.abspath(__file__)))
first = {}
order = ['log_round1_fix.txt', 'log_round1_fix_d7.txt', 'log_round1_seeded.txt', 'log_round2_seeded.txt', 'log_round3_seeded.txt']
for name in order + sorted(os.path.basename(f) for f in glob.glob(os.path.join(V, 'selftest', 'log_*.txt')) if os.path.basename(f) not in order):
    f = os.path.join(V, 'selftest', name)
    if not os.path.exists(f):
        continue
    for ln in open(f):
        m = re.match(r'^(\S+) (DETECTED|MISSED\(exit (\S+)\)) (\[.*\]) (\d+)\s*$', ln)
        if not m:
            continue
        sid = m.group(1)
        try:
            keys = ast.literal_eval(m.group(4))
        except Exception:
            keys = [m.group(4)[:200]]
        det = m.group(2) == 'DETECTED' and bool(keys)
        if sid == 'FIX-D7' and not keys:
            continue   # driver error (build directory pruned by a concurrent run), see DESIGN section 12
        if sid not in first:
            first[sid] = (det, keys, int(m.group(5)), name)
latest = {}
rp = os.path.join(V, 'selftest', 'RESULTS.json')
if os.path.exists(rp):
    for k, v in json.load(open(rp)).items():
        meta = json.load(open(os.path.join(V, 'seeded', k, 'meta.json')))
        c = v['checks'].get(meta['property'])
        if c:
            latest[k] = (c['exit'] == 1 and bool(c['violation_keys']), c['violation_keys'], c['wall_s'], v['checks'])
lines = ['# Calibration results: seeded changes vs checks', '',
         'Each row is a change to fastscape-lem/fastscapelib that compiles and passes the repository test-suite (confirmed in a scratch',
         'worktree: `seeded/<id>/meta.json`). It is applied to a scratch copy of `/repo/include` and the quick check of the property it',
         'breaks is run against it (`selftest/run_seeded.py`). `FIX-<D>`: revert of a `fix:` commit (a defect of the original tree).',
         '`Cxx-k`: round 1, `R2-Cxx-k` ... `R6-Cxx-k`: rounds 2-6 (independent sub-agents, see DESIGN.md section 11).',
         '"first run" is the verdict of the machinery as it was when the change arrived; "latest" after any strengthening.', '',
         '| id | property | what it needs to manifest | first run | latest | keys reported (latest) | s |', '|---|---|---|---|---|---|---|']
nf = nl = tot = 0
for sid in sorted(set(first) | set(latest)):
    meta = json.load(open(os.path.join(V, 'seeded', sid, 'meta.json')))
    f = first.get(sid)
    l = latest.get(sid, (f[0], f[1], f[2], None) if f else None)
    tot += 1
    nf += 1 if f and f[0] else 0
    nl += 1 if l and l[0] else 0
    needs = (meta.get('needs_to_manifest') or meta.get('summary') or '').replace('\n', ' ').replace('|', '/')[:200]
    lines.append('| %s | %s | %s | %s | %s | %s | %s |' % (sid, meta['property'], needs, ('detected' if f[0] else '**missed**') if f else '-',
                 'detected' if l and l[0] else '**missed**', ', '.join('`%s`' % k for k in (l[1] if l else [])[:3]), l[2] if l else ''))
lines += ['', 'Detected by the quick check of the broken property: first run **%d / %d**, latest **%d / %d**.' % (nf, tot, nl, tot)]
open(os.path.join(V, 'selftest', 'RESULTS.md'), 'w').write('\n'.join(lines) + '\n')
print('first %d / %d, latest %d / %d' % (nf, tot, nl, tot))
