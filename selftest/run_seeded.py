#!/usr/bin/env python3
"""Run the check of the broken property against each confirmed seeded change (and against each repaired defect, reverted).
The change is applied to a scratch copy of /repo/include under /var/tmp (removed afterwards); VERIF_REPO points the driver
at it and VERIF_OUT keeps evidence / replays of these runs out of /verif. Results: selftest/RESULTS.json + RESULTS.md.
usage: run_seeded.py [--tier quick] [--extra-props] [ids...]"""
import json, os, shutil, subprocess, sys, time, re
V = os.path.dirname(os.path.dirname(os.path.abspath(__file__)))
SEEDED = os.path.join(V, 'seeded')

def sh(cmd, cwd=None, env=None, timeout=7200):
    p = subprocess.run(cmd, shell=True, cwd=cwd, env=env, stdout=subprocess.PIPE, stderr=subprocess.STDOUT, text=True, timeout=timeout)
    return p.returncode, p.stdout

def run_one(sid, props, tier, seed):
    sdir = os.path.join(SEEDED, sid)
    scratch = '/var/tmp/fsv_mut_%s' % sid
    shutil.rmtree(scratch, ignore_errors=True)
    os.makedirs(scratch)
    rc, out = sh('git -C /repo archive HEAD include | tar -x -C %s' % scratch)
    assert rc == 0, out
    sh('git init -q . && git add -A && git -c user.email=a@b -c user.name=x commit -qm base', cwd=scratch)
    rc, out = sh('git apply %s/patch.diff' % sdir, cwd=scratch)
    res = {'id': sid, 'applies': rc == 0, 'checks': {}}
    if rc != 0:
        res['error'] = out[-400:]
        shutil.rmtree(scratch, ignore_errors=True)
        return res
    env = dict(os.environ)
    env['VERIF_REPO'] = scratch
    env['VERIF_OUT'] = scratch + '/out'
    env['VERIF_SEED'] = str(seed)
    for p in props:
        t0 = time.time()
        rc, out = sh('./check %s --tier %s%s' % (p, tier, (' --jobs ' + os.environ['VERIF_JOBS']) if os.environ.get('VERIF_JOBS') else ''), cwd=V, env=env)
        keys = sorted(set(re.findall(r'^   key=(\S+)', out, flags=re.M)))
        res['checks'][p] = {'exit': rc, 'violation_keys': keys[:12], 'wall_s': round(time.time() - t0),
                            'tail': out.strip().splitlines()[-2:][0][:300] if out.strip() else ''}
    shutil.rmtree(scratch, ignore_errors=True)
    return res

def main():
    args = sys.argv[1:]
    tier = 'quick'
    seed = 1
    extra = False
    ids = []
    i = 0
    while i < len(args):
        if args[i] == '--tier':
            tier = args[i + 1]; i += 2
        elif args[i] == '--seed':
            seed = int(args[i + 1]); i += 2
        elif args[i] == '--extra-props':
            extra = True; i += 1
        else:
            ids.append(args[i]); i += 1
    if not ids:
        ids = sorted(d for d in os.listdir(SEEDED) if os.path.isdir(os.path.join(SEEDED, d)))
    results = {}
    rp = os.path.join(V, 'selftest', 'RESULTS.json')
    if os.path.exists(rp):
        results = json.load(open(rp))
    for sid in ids:
        meta_p = os.path.join(SEEDED, sid, 'meta.json')
        meta = json.load(open(meta_p)) if os.path.exists(meta_p) else {}
        if not meta.get('confirmed') and not meta.get('revert_of_fix'):
            print(sid, 'skipped (not confirmed)')
            continue
        props = [meta.get('property', sid.split('-')[0])]
        if extra:
            props += [p for p in meta.get('also_check', []) if p not in props]
        r = run_one(sid, props, tier, seed)
        r['tier'] = tier
        r['seed'] = seed
        own = r['checks'].get(props[0], {})
        print(sid, 'DETECTED' if own.get('exit') == 1 else 'MISSED(exit %s)' % own.get('exit'), own.get('violation_keys'), own.get('wall_s'), flush=True)
        import fcntl
        with open(rp + '.lock', 'w') as lf:
            fcntl.flock(lf, fcntl.LOCK_EX)
            results = json.load(open(rp)) if os.path.exists(rp) else {}
            results[sid] = r
            json.dump(results, open(rp, 'w'), indent=1, sort_keys=True)

if __name__ == '__main__':
    main()
