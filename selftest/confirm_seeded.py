#!/usr/bin/env python3
"""Confirm seeded changes independently: for each /verif/seeded/<id>/ apply patch.diff to a scratch worktree of /repo
(under /var/tmp, removed afterwards), build and run the repository test-suite (must pass), build and run demo.cpp with
the change (must exit non-zero) and without it (must exit 0). Writes /verif/seeded/<id>/meta.json.
usage: confirm_seeded.py [ids...]   (default: all without a meta.json)"""
import json, os, subprocess, sys, shutil, time
from concurrent.futures import ThreadPoolExecutor
V = os.path.dirname(os.path.dirname(os.path.abspath(__file__)))
SEEDED = os.path.join(V, 'seeded')
NW = 4

def sh(cmd, cwd=None, timeout=3600):
    p = subprocess.run(cmd, shell=True, cwd=cwd, stdout=subprocess.PIPE, stderr=subprocess.STDOUT, text=True, timeout=timeout)
    return p.returncode, p.stdout

def demo(wt, sdir, flags, tag):
    exe = os.path.join(wt, 'demo_' + tag)
    rc, out = sh('g++ -std=c++17 -O1 -g %s -I%s/include -pthread %s/demo.cpp -o %s' % (flags, wt, sdir, exe))
    if rc != 0:
        return None, 'compile failed: ' + out[-800:]
    rcs = []
    last = ''
    for _ in range(3):
        try:
            rc, out = sh('TSAN_OPTIONS=exitcode=66 ' + exe, cwd=wt, timeout=600)
        except subprocess.TimeoutExpired:
            rc, out = 124, 'timeout'
        rcs.append(rc)
        last = out[-600:]
    return rcs, last

def worker(w, ids):
    wt = '/var/tmp/fsv_seed_%d' % w
    sh('git -C /repo worktree remove --force %s' % wt)
    shutil.rmtree(wt, ignore_errors=True)
    rc, out = sh('git -C /repo worktree add --detach %s HEAD' % wt)
    assert rc == 0, out
    rc, out = sh('cmake -G Ninja -B build -DFS_BUILD_TESTS=ON -DCMAKE_BUILD_TYPE=RelWithDebInfo -DCMAKE_CXX_FLAGS=-Wno-error -DGTest_DIR=/root/miniconda/lib/cmake/GTest', cwd=wt)
    assert rc == 0, out
    head = sh('git -C /repo rev-parse --short HEAD')[1].strip()
    for sid in ids:
        sdir = os.path.join(SEEDED, sid)
        res = {'id': sid, 'property': [x for x in sid.split('-') if x.startswith('C')][0], 'repo_head': head}
        try:
            am = json.load(open(os.path.join(sdir, 'agent_meta.json')))
        except Exception:
            am = {}
        res['summary'] = am.get('summary', '')
        res['needs_to_manifest'] = am.get('needs_to_manifest', '')
        res['files'] = am.get('files', [])
        sh('git checkout -- . && git clean -fdq -e build', cwd=wt)
        rc, out = sh('git apply --check %s/patch.diff && git apply %s/patch.diff' % (sdir, sdir), cwd=wt)
        res['patch_applies'] = rc == 0
        if rc != 0:
            res['error'] = out[-500:]
        else:
            t0 = time.time()
            rc, out = sh('cmake --build build -j4 2>&1 | tail -3 && ctest --test-dir build -j4 --timeout 900 2>&1 | tail -4', cwd=wt)
            res['tests_with_change'] = [l for l in out.splitlines() if 'tests passed' in l or 'tests failed' in l][-1:] or [out[-300:]]
            res['tests_pass_with_change'] = '100% tests passed' in out
            res['build_test_s'] = round(time.time() - t0)
            for flags in ['', '-fsanitize=address,undefined -fno-sanitize-recover=all', '-fsanitize=thread']:
                rcs, last = demo(wt, sdir, flags, 'changed')
                res['demo_flags'] = flags
                res['demo_with_change_exit_codes'] = rcs
                res['demo_with_change_output_tail'] = last
                if rcs and all(r != 0 for r in rcs):
                    break
            sh('git checkout -- include', cwd=wt)
            rcs0, last0 = demo(wt, sdir, res['demo_flags'], 'orig')
            res['demo_without_change_exit_codes'] = rcs0
            res['confirmed'] = bool(res['tests_pass_with_change'] and rcs and all(r != 0 for r in rcs) and rcs0 and all(r == 0 for r in rcs0))
        res['what_i_ran'] = ['git apply patch.diff on a scratch worktree of /repo HEAD', 'cmake --build + ctest (repository suite)',
                             'g++ -std=c++17 -O1 -g <demo_flags> demo.cpp with and without the change, 3 runs each']
        json.dump(res, open(os.path.join(sdir, 'meta.json'), 'w'), indent=1)
        print(sid, 'confirmed' if res.get('confirmed') else 'NOT CONFIRMED', res.get('tests_with_change'), res.get('demo_with_change_exit_codes'), res.get('demo_without_change_exit_codes'), flush=True)
    sh('git -C /repo worktree remove --force %s' % wt)
    shutil.rmtree(wt, ignore_errors=True)

def main():
    ids = sys.argv[1:] or sorted(d for d in os.listdir(SEEDED) if os.path.isdir(os.path.join(SEEDED, d)) and not os.path.exists(os.path.join(SEEDED, d, 'meta.json')))
    chunks = [ids[i::NW] for i in range(NW)]
    with ThreadPoolExecutor(NW) as ex:
        list(ex.map(lambda a: worker(*a), [(i, c) for i, c in enumerate(chunks) if c]))

if __name__ == '__main__':
    main()
