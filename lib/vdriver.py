"""Build, run, watch and summarise harness processes (see DESIGN.md section 3)."""
import fcntl
import hashlib
import json
import os
import re
import shutil
import signal
import subprocess
import sys
import threading
import time
from concurrent.futures import ThreadPoolExecutor

VERIF = os.path.dirname(os.path.dirname(os.path.abspath(__file__)))
REPO = os.environ.get('VERIF_REPO', '/repo')
BUILD = os.path.join(VERIF, 'build')
# where evidence / replays go (overridden by the self-tests so that runs against modified trees never touch /verif/evidence)
OUT = os.environ.get('VERIF_OUT', VERIF)
NCPU = 16

COMMON_FLAGS = ['-std=c++17', '-g', '-fno-omit-frame-pointer', '-DFASTSCAPELIB_VERIF_HOOKS', '-pthread']
FLAVOURS = {
    'asan': ['-O1', '-fsanitize=address,undefined,float-cast-overflow', '-fno-sanitize-recover=all', '-D_GLIBCXX_ASSERTIONS'],
    'tsan': ['-O1', '-fsanitize=thread'],
    'plain': ['-O1'],
    # coverage-guided campaign (libFuzzer): clang; object-size is off because clang's UBSan raises false alarms on empty
    # classes with zero-length arrays
    'fuzz': ['-O1', '-fsanitize=fuzzer,address,undefined,float-cast-overflow', '-fno-sanitize-recover=all', '-fno-sanitize=object-size',
             '-D_GLIBCXX_ASSERTIONS', '-DVF_FUZZ'],
}
# the flags users build with: optimised, assertions compiled out, no sanitizer (oracles only)
FLAVOURS['release'] = ['-O2', '-DNDEBUG']
COMPILER = {'fuzz': 'clang++'}
RUN_ENV = {
    'asan': {
        'ASAN_OPTIONS': 'abort_on_error=1:detect_leaks=0:detect_stack_use_after_return=1:allocator_may_return_null=1',
        'UBSAN_OPTIONS': 'print_stacktrace=1:halt_on_error=1',
    },
    'tsan': {
        'TSAN_OPTIONS': 'halt_on_error=0:exitcode=0:second_deadlock_stack=1:history_size=4',
    },
    'plain': {},
    'release': {},
    'fuzz': {
        'ASAN_OPTIONS': 'abort_on_error=1:detect_leaks=0:allocator_may_return_null=1',
        'UBSAN_OPTIONS': 'print_stacktrace=1:halt_on_error=1',
    },
}

KIND_DEFINE = {
    'profile': 'VG_PROFILE', 'profile_nc': 'VG_PROFILE_NC',
    'raster_rook': 'VG_RASTER_ROOK', 'raster_queen': 'VG_RASTER_QUEEN', 'raster_bishop': 'VG_RASTER_BISHOP',
    'raster_rook_nc': 'VG_RASTER_ROOK_NC', 'raster_queen_nc': 'VG_RASTER_QUEEN_NC',
    'raster_bishop_nc': 'VG_RASTER_BISHOP_NC', 'trimesh': 'VG_TRIMESH',
}


def log(msg):
    sys.stdout.write(msg + '\n')
    sys.stdout.flush()


# ---------------------------------------------------------------------------------------- build
_HASH_CACHE = {}


def _hash_dir(h, root):
    for d, dirs, files in sorted(os.walk(root)):
        dirs.sort()
        for f in sorted(files):
            p = os.path.join(d, f)
            h.update(os.path.relpath(p, root).encode())
            with open(p, 'rb') as fh:
                h.update(fh.read())


def build_dir(flavour, harness):
    """one directory per (flavour, harness, hash of /repo/include + harness/common + the harness source + flags)"""
    key = (flavour, harness)
    if key not in _HASH_CACHE:
        h = hashlib.sha256()
        _hash_dir(h, os.path.join(REPO, 'include'))
        _hash_dir(h, os.path.join(VERIF, 'harness', 'common'))
        with open(os.path.join(VERIF, 'harness', harness + '.cpp'), 'rb') as fh:
            h.update(fh.read())
        h.update(' '.join(COMMON_FLAGS + FLAVOURS[flavour]).encode())
        _HASH_CACHE[key] = os.path.join(BUILD, '%s-%s-%s' % (flavour, harness, h.hexdigest()[:16]))
    return _HASH_CACHE[key]


def _compile(harness, kind, flavour, bdir):
    out = os.path.join(bdir, '%s_%s' % (harness, kind))
    if os.path.exists(out):
        return out, 0.0, ''
    src = os.path.join(VERIF, 'harness', harness + '.cpp')
    tmp = out + '.tmp.%d' % os.getpid()
    cmd = [COMPILER.get(flavour, 'g++')] + COMMON_FLAGS + FLAVOURS[flavour] + ['-D' + KIND_DEFINE[kind], '-I' + os.path.join(REPO, 'include'),
                                                        '-I' + os.path.join(VERIF, 'harness'), src, '-o', tmp]
    t0 = time.time()
    p = subprocess.run(cmd, stdout=subprocess.PIPE, stderr=subprocess.STDOUT, text=True)
    dt = time.time() - t0
    if p.returncode != 0:
        try:
            os.unlink(tmp)
        except OSError:
            pass
        return None, dt, p.stdout[-4000:]
    os.rename(tmp, out)
    return out, dt, ''


def prune_builds(keep_dirs):
    """keep at most 3 build directories per (flavour, harness), plus anything used in the last 6 hours."""
    if not os.path.isdir(BUILD):
        return
    by_fl = {}
    for d in os.listdir(BUILD):
        p = os.path.join(BUILD, d)
        if not os.path.isdir(p) or d.count('-') < 2:
            if os.path.isdir(p) and d != 'tmp':
                shutil.rmtree(p, ignore_errors=True)   # directories of an older layout
            continue
        by_fl.setdefault(d.rsplit('-', 1)[0], []).append(p)
    now = time.time()
    for fl, dirs in by_fl.items():
        dirs.sort(key=lambda p: os.path.getmtime(p), reverse=True)
        for p in dirs[3:]:
            # never remove a directory that was used recently: another check may be running from it
            if p not in keep_dirs and now - os.path.getmtime(p) > 6 * 3600:
                shutil.rmtree(p, ignore_errors=True)


def build(needed):
    """needed: iterable of (harness, kind, flavour). Returns {(h,k,f): path}. Exits 2 on failure."""
    needed = sorted(set(needed))
    os.makedirs(BUILD, exist_ok=True)
    dirs = {(n[2], n[0]): build_dir(n[2], n[0]) for n in needed}
    for d in dirs.values():
        os.makedirs(d, exist_ok=True)
    result = {}
    lockf = open(os.path.join(BUILD, '.lock'), 'w')
    fcntl.flock(lockf, fcntl.LOCK_EX)
    try:
        todo = [n for n in needed if not os.path.exists(os.path.join(dirs[(n[2], n[0])], '%s_%s' % (n[0], n[1])))]
        if todo:
            log('[build] compiling %d harness binaries from %s/include (flavours: %s)' %
                (len(todo), REPO, ','.join(sorted(set(n[2] for n in todo)))))
        t0 = time.time()
        failed = []
        with ThreadPoolExecutor(max_workers=NCPU) as ex:
            futs = {ex.submit(_compile, n[0], n[1], n[2], dirs[(n[2], n[0])]): n for n in todo}
            for fut, n in futs.items():
                out, dt, err = fut.result()
                if out is None:
                    failed.append((n, err))
        if todo:
            log('[build] done in %.0f s' % (time.time() - t0))
        for d in dirs.values():
            os.utime(d, None)
        prune_builds(set(dirs.values()))
    finally:
        fcntl.flock(lockf, fcntl.LOCK_UN)
        lockf.close()
    if failed:
        for n, err in failed:
            log('[build] FAILED %s_%s (%s):\n%s' % (n[0], n[1], n[2], err))
        log('HARNESS-FAILURE: build failed')
        sys.exit(2)
    for n in needed:
        result[n] = os.path.join(dirs[(n[2], n[0])], '%s_%s' % (n[0], n[1]))
    return result


# ---------------------------------------------------------------------------------------- sanitizer report parsing
FRAME_RE = re.compile(r'^\s*#(\d+)\s+0x[0-9a-f]+\s+(?:in\s+)?(.*?)\s+(\S+?):(\d+)(?::\d+)?\s*$')
FRAME_RE2 = re.compile(r'^\s*#(\d+)\s+(.*?)\s+(\S+?):(\d+)(?::\d+)?\s+\(.*\)\s*$')  # tsan style


def _short_func(f):
    f = re.sub(r'\(.*$', '', f)          # drop argument list
    f = re.sub(r'<[^<>]*>', '', f)       # drop innermost template args (repeat)
    for _ in range(6):
        f = re.sub(r'<[^<>]*>', '', f)
    f = f.replace('fastscapelib::', '').replace('detail::', '')
    f = f.split(' ')[-1]
    return f[-80:]


def _lib_frame(lines):
    """first stack frame located in the library's headers -> 'file:function'"""
    for ln in lines:
        m = FRAME_RE.match(ln) or FRAME_RE2.match(ln)
        if not m:
            continue
        func, path = m.group(2), m.group(3)
        if '/include/fastscapelib/' in path:
            return '%s:%s' % (os.path.basename(path), _short_func(func))
    for ln in lines:
        m = FRAME_RE.match(ln) or FRAME_RE2.match(ln)
        if m and '/harness/' in m.group(3):
            return 'harness/%s:%s' % (os.path.basename(m.group(3)), _short_func(m.group(2)))
    return 'unknown'


def classify_crash(stderr_text, returncode):
    """-> (key, summary) for an abnormal termination of a harness process."""
    lines = stderr_text.splitlines()
    for i, ln in enumerate(lines):
        m = re.search(r'ERROR: AddressSanitizer: (\S+)', ln)
        if m:
            return 'asan/%s@%s' % (m.group(1), _lib_frame(lines[i:i + 60])), ln.strip()[:300]
    for i, ln in enumerate(lines):
        m = re.search(r'(\S+?):(\d+):\d+: runtime error: (.*)$', ln)
        if m:
            what = re.sub(r'0x[0-9a-f]+', 'ADDR', m.group(3))
            what = re.sub(r'-?\d+(\.\d+)?(e[+-]?\d+)?', 'N', what)[:60].strip().replace(' ', '_')
            where = os.path.basename(m.group(1))
            return 'ubsan/%s@%s' % (what, where), ln.strip()[:300]
    for i, ln in enumerate(lines):
        m = re.search(r'==\d+== (Invalid (?:read|write) of size \d+|Conditional jump or move depends on uninitialised value|'
                      r'Use of uninitialised value of size \d+|Invalid free|Mismatched free|Syscall param .* uninitialised)', ln)
        if m:
            fr = 'unknown'
            for l2 in lines[i + 1:i + 40]:
                m2 = re.search(r'(?:at|by) 0x[0-9A-F]+: (.*?) \((\S+?):(\d+)\)', l2)
                if m2 and ('fastscapelib' in l2 and '.hpp' in m2.group(2)):
                    fr = '%s:%s' % (m2.group(2), _short_func(m2.group(1)))
                    break
            return 'memcheck/%s@%s' % (re.sub(r'\d+', 'N', m.group(1)).replace(' ', '_'), fr), ln.strip()[:300]
    for ln in lines:
        if 'Assertion' in ln and 'failed' in ln:
            m = re.search(r"(\S+?):(\d+): (.*?): Assertion [`'](.*)' failed", ln)
            if m:
                return 'assert/%s:%s' % (os.path.basename(m.group(1)), re.sub(r'\s+', '', m.group(4))[:60]), ln.strip()[:300]
            return 'assert/unknown', ln.strip()[:300]
    for ln in lines:
        if '__glibcxx_assert' in ln or 'Assertion' in ln:
            return 'glibcxx_assert', ln.strip()[:300]
    for ln in lines:
        if 'terminate called' in ln:
            return 'terminate', ' '.join(l.strip() for l in lines[-3:])[:300]
    if returncode is not None and returncode < 0:
        try:
            name = signal.Signals(-returncode).name
        except ValueError:
            name = str(-returncode)
        return 'signal/%s' % name, 'killed by %s' % name
    return 'exit/%s' % returncode, 'abnormal exit %s' % returncode


def tsan_reports(stderr_text):
    """-> list of (key, first lines) for every ThreadSanitizer report block."""
    out = []
    blocks = re.split(r'^={18}$', stderr_text, flags=re.M)
    for b in blocks:
        m = re.search(r'WARNING: ThreadSanitizer: ([^\n(]+)', b)
        if not m:
            continue
        kind = m.group(1).strip().replace(' ', '_')
        lines = b.splitlines()
        # the two access stacks: take the library frame of each
        stacks, cur = [], []
        for ln in lines:
            if re.match(r'^\s*(Write|Read|Previous|Atomic|Mutex|Thread|Location|Cycle)', ln.strip()) and cur:
                stacks.append(cur)
                cur = []
            if ln.strip().startswith('#'):
                cur.append(ln)
        if cur:
            stacks.append(cur)
        fr = [_lib_frame(s) for s in stacks[:2]]
        fr = sorted(set(fr))
        out.append(('tsan/%s@%s' % (kind, '+'.join(fr)), '\n'.join(lines[:14])))
    return out


# ---------------------------------------------------------------------------------------- running one shard
class Job:
    def __init__(self, binary, harness, kind, flavour, prop, seed, shard, nshards, cases, tier, extra=None,
                 case_timeout=120):
        self.binary, self.harness, self.kind, self.flavour = binary, harness, kind, flavour
        self.prop, self.seed, self.shard, self.nshards, self.cases, self.tier = prop, seed, shard, nshards, cases, tier
        self.extra = list(extra or [])
        self.case_timeout = case_timeout
        self.wrapper = []
        # results
        self.viol = []          # dicts: prop, key, k, witness
        self.stats = []         # STATS objects (one per process segment)
        self.hashes = set()     # nontrivial case hashes
        self.evaluations = 0
        self.inconclusive = []
        self.failures = []      # harness failures (strings)
        self.tsan = []
        self.wall = 0.0

    def base_cmd(self):
        return self.wrapper + [self.binary, '--prop', self.prop, '--seed', str(self.seed), '--shard', str(self.shard), '--nshards',
                str(self.nshards), '--cases', str(self.cases), '--tier', self.tier] + self.extra

    def ident(self):
        return '%s_%s[%s] prop=%s seed=%d shard=%d/%d' % (self.harness, self.kind, self.flavour, self.prop, self.seed,
                                                         self.shard, self.nshards)


def _run_segment(job, extra_args, env):
    """run the binary once; returns dict(last_begin, ended, returncode, stderr, hang)"""
    cmd = job.base_cmd() + extra_args
    errf = subprocess.PIPE
    p = subprocess.Popen(cmd, stdout=subprocess.PIPE, stderr=errf, env=env, text=True, errors='replace')
    state = {'cur': None, 'last_line_t': time.time(), 'done': False, 'stats': False}
    err_chunks = []

    def read_err():
        for ln in p.stderr:
            err_chunks.append(ln)
            if sum(len(c) for c in err_chunks[-50:]) > 10 ** 7:
                del err_chunks[:-2000]

    def read_out():
        for ln in p.stdout:
            state['last_line_t'] = time.time()
            ln = ln.rstrip('\n')
            if ln.startswith('BEGIN '):
                state['cur'] = int(ln.split()[1])
            elif ln.startswith('END '):
                parts = ln.split()
                job.evaluations += 1
                if parts[2] == 'inconclusive':
                    job.inconclusive.append((int(parts[1]), 'case'))
                if len(parts) >= 5 and parts[3] == '1':
                    job.hashes.add(parts[4])
                state['cur'] = None
            elif ln.startswith('VIOL '):
                _, k, prop, key, wit = ln.split(' ', 4)
                job.viol.append({'prop': prop, 'key': key, 'k': int(k), 'witness': wit})
            elif ln.startswith('STATS '):
                try:
                    job.stats.append(json.loads(ln[6:]))
                    state['stats'] = True
                except ValueError:
                    job.failures.append('unparsable STATS from ' + job.ident())
        state['done'] = True

    te = threading.Thread(target=read_err, daemon=True)
    to = threading.Thread(target=read_out, daemon=True)
    te.start()
    to.start()
    hang = False
    while True:
        try:
            p.wait(timeout=1.0)
            break
        except subprocess.TimeoutExpired:
            if time.time() - state['last_line_t'] > job.case_timeout:
                hang = True
                p.kill()
                p.wait()
                break
    to.join(timeout=10)
    te.join(timeout=10)
    return {'cur': state['cur'], 'stats': state['stats'], 'returncode': p.returncode, 'stderr': ''.join(err_chunks),
            'hang': hang}


def run_fuzz_job(job):
    """one libFuzzer campaign: `cases` executions, restarted behind every artifact (at most 4); job.prop selects the property whose
    oracle violations stop the campaign ('all': sanitizer reports and table-width invariants)."""
    import base64, tempfile
    t0 = time.time()
    env = dict(os.environ)
    env.update(RUN_ENV['fuzz'])
    known, _ = load_known()
    env['VF_FUZZ_PROP'] = job.prop
    env['VF_FUZZ_KNOWN'] = ','.join('%s:%s' % (k['prop'], k['key']) for k in known)
    work = tempfile.mkdtemp(prefix='fuzz-', dir=os.path.join(BUILD, 'tmp') if os.path.isdir(os.path.join(BUILD, 'tmp')) else None)
    corpus = os.path.join(work, 'corpus')
    art = os.path.join(work, 'artifacts')
    os.makedirs(corpus)
    os.makedirs(art)
    remaining = job.cases
    crashes = 0
    job.fuzz = {'executions': 0, 'cov': 0, 'ft': 0, 'corpus_units': 0, 'campaign_segments': 0}
    job.extra_distinct = 0
    try:
        while remaining > 0 and crashes < 4:
            cmd = [job.binary, '-runs=%d' % remaining, '-max_len=2048', '-len_control=0',
                   '-seed=%d' % (job.seed * 1000 + job.shard * 10 + crashes + 1), '-print_final_stats=1',
                   '-artifact_prefix=%s/' % art, '-timeout=%d' % job.case_timeout, '-rss_limit_mb=6000', corpus]
            try:
                p = subprocess.run(cmd, env=env, stdout=subprocess.PIPE, stderr=subprocess.PIPE, text=True, errors='replace',
                                   timeout=max(3600, remaining / 20.0))
            except subprocess.TimeoutExpired:
                job.inconclusive.append((-1, 'fuzzing campaign exceeded its wall-clock budget'))
                break
            job.fuzz['campaign_segments'] += 1
            m = re.findall(r'stat::number_of_executed_units:\s+(\d+)', p.stderr)
            executed = int(m[-1]) if m else 0
            m = re.findall(r'#\d+\s+\S+\s+cov: (\d+) ft: (\d+) corp: (\d+)/', p.stderr)
            if m:
                job.fuzz['cov'] = max(job.fuzz['cov'], int(m[-1][0]))
                job.fuzz['ft'] = max(job.fuzz['ft'], int(m[-1][1]))
                job.fuzz['corpus_units'] = max(job.fuzz['corpus_units'], int(m[-1][2]))
            job.fuzz['executions'] += executed
            job.evaluations += executed
            for ln in p.stdout.splitlines():
                if ln.startswith('STATS '):
                    try:
                        st = json.loads(ln[6:])
                        job.stats.append(st)
                        job.extra_distinct += st.get('fuzz_distinct_nontrivial', 0)
                    except ValueError:
                        pass
            if p.returncode == 0:
                break
            # an artifact: oracle violation (VIOL line, then abort), sanitizer report, or libFuzzer timeout / out-of-memory
            am = re.search(r'Test unit written to (\S+)', p.stderr)
            data = b''
            if am and os.path.exists(am.group(1)):
                data = open(am.group(1), 'rb').read()
            viol_lines = [ln for ln in p.stdout.splitlines() if ln.startswith('VIOL ')]
            timeout_hit = 'libFuzzer: timeout' in p.stderr
            if timeout_hit and data:
                # a slow unit is inconclusive unless it is slow again when run alone with a generous limit
                f = os.path.join(work, 'slow-unit')
                open(f, 'wb').write(data)
                try:
                    p2 = subprocess.run([job.binary, '-timeout=%d' % (4 * job.case_timeout), f], env=env, stdout=subprocess.PIPE,
                                        stderr=subprocess.PIPE, text=True, errors='replace', timeout=6 * job.case_timeout)
                    again = p2.returncode != 0 and 'libFuzzer: timeout' in p2.stderr
                except subprocess.TimeoutExpired:
                    again = True
                if not again:
                    job.inconclusive.append((-1, 'libFuzzer timeout once, unit completed when run alone'))
                    remaining -= max(executed, 1)
                    crashes += 1
                    continue
            if viol_lines:
                _, k, vprop, key, wit = viol_lines[-1].split(' ', 4)
            elif timeout_hit:
                vprop, key, wit = job.prop, 'hang', json.dumps({'detail': 'libFuzzer timeout (%d s), twice' % job.case_timeout})
            else:
                ckey, summ = classify_crash(p.stderr, p.returncode)
                vprop, key = job.prop, 'crash:' + ckey
                wit = json.dumps({'summary': summ, 'stderr_tail': p.stderr[-3000:]})
            try:
                w = json.loads(wit)
            except ValueError:
                w = {'text': wit}
            if not isinstance(w, dict):
                w = {'text': w}
            w['fuzz_input_base64'] = base64.b64encode(data).decode()
            job.viol.append({'prop': vprop, 'key': key, 'k': job.fuzz['executions'], 'witness': json.dumps(w)})
            remaining -= max(executed, 1)
            crashes += 1
    finally:
        shutil.rmtree(work, ignore_errors=True)
    job.wall = time.time() - t0
    return job


HANG_CAP = 6
_HANG_LOCK = threading.Lock()
_HANGS_CONFIRMED = {}


def _hang_cap_reached(prop):
    """True once HANG_CAP cases of this check have hung twice - unless a hang is a listed known finding of the property (then
    every case still has to run, because another violation must not be hidden behind the known one)"""
    with _HANG_LOCK:
        if _HANGS_CONFIRMED.get(prop, 0) < HANG_CAP:
            return False
    known, _ = load_known()
    return not any(k['prop'] == prop and k['key'] == 'hang' for k in known)


def run_job(job):
    if job.flavour == 'fuzz':
        return run_fuzz_job(job)
    t0 = time.time()
    env = dict(os.environ)
    env.update(RUN_ENV[job.flavour])
    start = 0
    only = job.only if hasattr(job, 'only') else None
    guard = 0
    while True:
        guard += 1
        if guard > 200:
            job.failures.append('too many restarts: ' + job.ident())
            break
        if only is None and _hang_cap_reached(job.prop):
            # the check already has HANG_CAP confirmed hangs (each one costs two watchdog periods): the violation is established,
            # the remaining cases of this shard are not run (counted as inconclusive, the verdict stays "violated")
            job.inconclusive.append((start, 'check abandoned after %d confirmed hangs (remaining cases of this shard not run)' % HANG_CAP))
            break
        extra = ['--start', str(start)] if only is None else ['--only', str(only)]
        r = _run_segment(job, extra, env)
        if job.flavour == 'tsan':
            for key, text in tsan_reports(r['stderr']):
                job.tsan.append({'key': key, 'text': text, 'k': r['cur'] if r['cur'] is not None else -1})
        normal = (r['returncode'] == 0 and r['stats'] and not r['hang'])
        if normal:
            break
        k = r['cur']
        if k is None:
            # died outside any case: harness failure
            key, summ = classify_crash(r['stderr'], r['returncode'])
            job.failures.append('%s: abnormal termination outside a case (%s: %s)\n%s' %
                                (job.ident(), key, summ, r['stderr'][-1500:]))
            break
        if r['hang']:
            # retry the same case once in a fresh process
            r2 = _run_segment(job, ['--only', str(k)], env)
            if r2['hang']:
                job.viol.append({'prop': job.prop, 'key': 'hang', 'k': k,
                                 'witness': json.dumps({'detail': 'no progress for %d s, twice' % job.case_timeout})})
                job.hangs = getattr(job, 'hangs', 0) + 1
                with _HANG_LOCK:
                    _HANGS_CONFIRMED[job.prop] = _HANGS_CONFIRMED.get(job.prop, 0) + 1
                if job.hangs >= 3:
                    # the violation is established; do not spend hours on further hanging cases of this shard
                    job.inconclusive.append((k, 'shard abandoned after 3 confirmed hangs (remaining cases not run)'))
                    break
            elif r2['returncode'] != 0 or not r2['stats']:
                key, summ = classify_crash(r2['stderr'], r2['returncode'])
                job.viol.append({'prop': job.prop, 'key': 'crash:' + key, 'k': k,
                                 'witness': json.dumps({'summary': summ, 'stderr_tail': r2['stderr'][-3000:]})})
            else:
                job.inconclusive.append((k, 'watchdog expired once, case completed on re-run'))
        else:
            key, summ = classify_crash(r['stderr'], r['returncode'])
            job.viol.append({'prop': job.prop, 'key': 'crash:' + key, 'k': k,
                             'witness': json.dumps({'summary': summ, 'stderr_tail': r['stderr'][-3000:]})})
        if only is not None:
            break
        start = k + 1
        if start >= job.cases:
            break
    job.wall = time.time() - t0
    return job


# ---------------------------------------------------------------------------------------- known findings
def load_known():
    known, fixed = [], []
    p = os.path.join(VERIF, 'KNOWN_FINDINGS.txt')
    if not os.path.exists(p):
        return known, fixed
    for ln in open(p):
        ln = ln.strip()
        if not ln or ln.startswith('#'):
            continue
        m = re.match(r'known:\s+property=(\S+)\s+key=(\S+)\s+(.*)$', ln)
        if m:
            known.append({'prop': m.group(1), 'key': m.group(2), 'text': m.group(3)})
            continue
        m = re.match(r'fixed:\s+property=(\S+)\s+(\S+)\s+(.*)$', ln)
        if m:
            fixed.append({'prop': m.group(1), 'commit': m.group(2), 'text': m.group(3)})
    return known, fixed


# ---------------------------------------------------------------------------------------- main
def merge_counters(stats_list):
    out = {}
    for s in stats_list:
        for k, v in s.get('counters', {}).items():
            if k.endswith('_max') or k.startswith('enum_total_all') or '.max_' in k:
                out[k] = max(out.get(k, 0), v)
            else:
                out[k] = out.get(k, 0) + v
    return out


def main(argv):
    import plan
    if not argv or argv[0] in ('-h', '--help'):
        log(__doc__ or 'see ./check')
        return 2
    if argv[0] == '--build-all':
        flavours = ['asan', 'tsan']
        if '--with-plain' in argv:
            flavours.append('plain')
        needed = plan.all_binaries(flavours) + plan.fuzz_binaries()
        build(needed)
        log('[build] %d binaries ready' % len(needed))
        return 0

    pid = argv[0]
    tier = os.environ.get('VERIF_TIER', 'quick')
    seed = int(os.environ.get('VERIF_SEED', '1'))
    replay = None
    jobs_override = None
    i = 1
    while i < len(argv):
        if argv[i] == '--tier':
            tier = argv[i + 1]
            i += 2
        elif argv[i] == '--seed':
            seed = int(argv[i + 1])
            i += 2
        elif argv[i] == '--replay':
            replay = argv[i + 1]
            i += 2
        elif argv[i] == '--jobs':
            jobs_override = int(argv[i + 1])
            i += 2
        else:
            log('unknown argument ' + argv[i])
            return 2
    if pid not in plan.PLAN:
        log('HARNESS-FAILURE: no check registered for %s' % pid)
        return 2
    if tier not in ('quick', 'thorough'):
        log('bad tier')
        return 2
    if replay:
        return do_replay(pid, replay)

    t0 = time.time()
    spec = plan.PLAN[pid]
    runs = spec[tier](seed)
    needed = set((r['harness'], r['kind'], r['flavour']) for r in runs)
    bins = build(needed)
    jobs = []
    for r in runs:
        for sh in range(r['nshards']):
            j = Job(bins[(r['harness'], r['kind'], r['flavour'])], r['harness'], r['kind'], r['flavour'],
                    r.get('prop', pid), seed, sh, r['nshards'], r['cases'], tier, r.get('extra'),
                    r.get('case_timeout', 40 if tier == 'quick' else 150))
            j.wrapper = list(r.get('wrapper', []))
            j.weight = r.get('weight', 1)
            j.group = r.get('group', r['harness'])
            jobs.append(j)
    maxpar = jobs_override or spec.get('max_parallel', NCPU)
    log('[%s] tier=%s seed=%d: %d processes (%d at a time) over %d binaries' % (pid, tier, seed, len(jobs), maxpar, len(bins)))
    with ThreadPoolExecutor(max_workers=maxpar) as ex:
        list(ex.map(run_job, jobs))

    return summarise(pid, tier, seed, spec, jobs, time.time() - t0)


def replay_path(pid, job, k, key):
    os.makedirs(os.path.join(OUT, 'replays'), exist_ok=True)
    safe = re.sub(r'[^A-Za-z0-9_.-]+', '_', key)[:60]
    name = '%s-%s_%s-%s-seed%d-shard%dof%d-k%d-%s.json' % (pid, job.harness, job.kind, job.flavour, job.seed, job.shard,
                                                         job.nshards, k, safe)
    return os.path.join(OUT, 'replays', name)


def write_replay(pid, job, v):
    path = replay_path(pid, job, v['k'], v['key'])
    try:
        wit = json.loads(v['witness'])
    except ValueError:
        wit = v['witness']
    rec = {'property': pid, 'reported_property': v['prop'], 'key': v['key'], 'harness': job.harness, 'kind': job.kind,
           'flavour': job.flavour, 'prop_arg': job.prop, 'seed': job.seed, 'shard': job.shard, 'nshards': job.nshards,
           'cases': job.cases, 'tier': job.tier, 'extra': job.extra, 'k': v['k'], 'witness': wit,
           'how_to_replay': './check %s --replay %s' % (pid, os.path.relpath(path, OUT))}
    with open(path, 'w') as f:
        json.dump(rec, f, indent=1)
    return os.path.relpath(path, OUT)


def do_replay(pid, path):
    rec = json.load(open(path if os.path.isabs(path) else os.path.join(OUT, path)))
    bins = build([(rec['harness'], rec['kind'], rec['flavour'])])
    if rec['flavour'] == 'fuzz':
        import base64, tempfile
        data = base64.b64decode((rec.get('witness') or {}).get('fuzz_input_base64', ''))
        env = dict(os.environ)
        env.update(RUN_ENV['fuzz'])
        known, _ = load_known()
        env['VF_FUZZ_PROP'] = rec['prop_arg']
        env['VF_FUZZ_KNOWN'] = ','.join('%s:%s' % (k['prop'], k['key']) for k in known)
        with tempfile.NamedTemporaryFile(prefix='fuzz-unit-', delete=False) as tf:
            tf.write(data)
        try:
            p = subprocess.run([bins[(rec['harness'], rec['kind'], 'fuzz')], '-timeout=600', tf.name], env=env, stdout=subprocess.PIPE,
                               stderr=subprocess.PIPE, text=True, errors='replace', timeout=1800)
        finally:
            os.unlink(tf.name)
        for ln in p.stdout.splitlines():
            if ln.startswith('VIOL '):
                log('replayed: ' + ln[:2000])
        if p.returncode != 0:
            log(p.stderr[-1500:])
            log('VIOLATION property=%s replay=%s' % (pid, path))
            return 1
        log('replay: no violation reproduced')
        return 0
    j = Job(bins[(rec['harness'], rec['kind'], rec['flavour'])], rec['harness'], rec['kind'], rec['flavour'],
            rec['prop_arg'], rec['seed'], rec['shard'], rec['nshards'], rec['cases'], rec['tier'], rec['extra'])
    j.only = rec['k']
    run_job(j)
    hits = [v for v in j.viol if v['prop'] in (pid, rec.get('reported_property'))] + j.tsan
    for v in j.viol:
        log('replayed: property=%s key=%s case=%d %s' % (v['prop'], v['key'], v['k'], v['witness'][:2000]))
    for t in j.tsan:
        log('replayed tsan: %s\n%s' % (t['key'], t['text']))
    for f in j.failures:
        log('failure: ' + f)
    if hits:
        log('VIOLATION property=%s replay=%s' % (pid, path))
        return 1
    log('replay: no violation reproduced')
    return 0 if not j.failures else 2


def summarise(pid, tier, seed, spec, jobs, wall):
    known, fixed = load_known()
    known_idx = {(k['prop'], k['key']): k for k in known}
    all_stats = [s for j in jobs for s in j.stats]
    counters = merge_counters(all_stats)
    evaluations = sum(j.evaluations for j in jobs)
    hashes = set()
    for j in jobs:
        hashes |= j.hashes
    failures = [f for j in jobs for f in j.failures]
    inconclusive = [(j.ident(), k, why) for j in jobs for (k, why) in j.inconclusive]

    # violations: those reported for this property (or by crashes of these processes)
    new_viol, known_seen, other_prop = [], {}, {}
    for j in jobs:
        seen_keys = set()
        for v in j.viol:
            vprop = v['prop']
            if pid == 'C08' and vprop == 'C06' and v['key'] in ('receivers_count_range', 'donors_count_range',
                                                               'receiver_index_range', 'donor_index_range', 'table_shapes'):
                v = dict(v)
                v['key'] = 'table_overflow/' + v['key']
                v['prop'] = vprop = 'C08'
            if vprop != pid and not (pid == 'C08' and v['key'].startswith('crash:')):
                if v['key'].startswith('crash:') or v['key'] == 'hang':
                    vprop = pid    # the call under test did not complete
                else:
                    other_prop[(v['prop'], v['key'])] = other_prop.get((v['prop'], v['key']), 0) + 1
                    continue
            kk = (pid, v['key'])
            if kk in known_idx:
                known_seen[kk] = known_seen.get(kk, 0) + 1
                continue
            if (j.harness, j.kind, v['key']) in seen_keys and len(new_viol) > 40:
                continue
            seen_keys.add((j.harness, j.kind, v['key']))
            new_viol.append((j, v))
        for t in j.tsan:
            kk = (pid, t['key'])
            if kk in known_idx:
                known_seen[kk] = known_seen.get(kk, 0) + 1
                continue
            new_viol.append((j, {'prop': pid, 'key': t['key'], 'k': t['k'], 'witness': json.dumps({'report': t['text']})}))

    # coverage floor
    floor_missing = [c for c in spec.get('floor', []) if counters.get(c, 0) <= 0]
    exhaustive = None
    if spec.get('exhaustive_counter'):
        tot = counters.get('enum_total_all_shards', 0)
        # enum_total_all_shards is per (harness,kind): sum over distinct binaries
        per = {}
        for s in all_stats:
            per[(s['harness'], s['grid'])] = s['counters'].get('enum_total_all_shards', 0)
        tot = sum(per.values())
        exhaustive = tot > 0 and counters.get(spec['exhaustive_counter'], 0) == tot

    samples = []
    for s in all_stats:
        for x in s.get('samples', []):
            if len(samples) < 6:
                samples.append(x)
    per_binary = {}
    for j in jobs:
        d = per_binary.setdefault('%s_%s[%s]' % (j.harness, j.kind, j.flavour), {'evaluations': 0, 'processes': 0, 'wall_s': 0.0})
        d['evaluations'] += j.evaluations
        d['processes'] += 1
        d['wall_s'] = round(d['wall_s'] + j.wall, 1)

    distinct = len(hashes) + sum(getattr(j, 'extra_distinct', 0) for j in jobs)
    fuzz_jobs = [j for j in jobs if getattr(j, 'fuzz', None)]
    ev = {
        'property_id': pid, 'tier': tier, 'seed': seed, 'level': 'exploration',
        'coverage': {
            'evaluations': evaluations,
            'distinct_nontrivial': distinct,
            'rule': spec['rule'],
            'samples': samples,
            'monitor_counters': counters,
            'per_binary': per_binary,
            'sanitizer_flavours': sorted(set(j.flavour for j in jobs)),
            'sanitizer_reports': sum(len(j.tsan) for j in jobs) + sum(1 for j in jobs for v in j.viol if v['key'].startswith('crash:')),
            'inconclusive_cases': len(inconclusive),
            'known_findings_seen': {('%s %s' % k): n for k, n in known_seen.items()},
            'violations_reported_for_other_properties': {('%s %s' % k): n for k, n in other_prop.items()},
            'coverage_floor': {'required_positive': spec.get('floor', []), 'missing': floor_missing},
        },
        'assumptions': spec.get('assumptions', []),
        'wall_s': round(wall, 1),
        'violations': len(new_viol),
    }
    if fuzz_jobs:
        ev['coverage']['fuzzing'] = {
            'engine': 'libFuzzer (clang 14) over the decision stream of the harness generators, ASan+UBSan',
            'campaigns': len(fuzz_jobs),
            'executions': sum(j.fuzz['executions'] for j in fuzz_jobs),
            'edges_covered_max': max(j.fuzz['cov'] for j in fuzz_jobs),
            'features_max': max(j.fuzz['ft'] for j in fuzz_jobs),
            'corpus_units_kept': sum(j.fuzz['corpus_units'] for j in fuzz_jobs),
            'per_campaign': {j.ident(): j.fuzz for j in fuzz_jobs},
        }
    if exhaustive is not None:
        ev['coverage']['exhaustive'] = bool(exhaustive)
        ev['coverage']['exhaustive_scope'] = spec.get('exhaustive_scope', '')
    os.makedirs(os.path.join(OUT, 'evidence'), exist_ok=True)

    rc = 0
    for (kp, kkey), n in sorted(known_seen.items()):
        log('KNOWN-FINDING: property=%s %s [key=%s, seen %d times]' % (kp, known_idx[(kp, kkey)]['text'], kkey, n))
    if new_viol:
        rc = 1
        shown = set()
        for j, v in new_viol:
            path = write_replay(pid, j, v)
            tag = (j.harness, j.kind, v['key'])
            if tag in shown and len(shown) > 30:
                continue
            shown.add(tag)
            log('VIOLATION property=%s replay=%s' % (pid, path))
            log('   key=%s  %s  case=%d' % (v['key'], j.ident(), v['k']))
            log('   witness: %s' % v['witness'][:1200])
    if failures:
        for f in failures[:10]:
            log('HARNESS-FAILURE: ' + f[:3000])
        if rc == 0:
            rc = 2
    if rc == 0 and floor_missing:
        log('INCONCLUSIVE: coverage floor not reached, monitors observed nothing for: %s' % ', '.join(floor_missing))
        rc = 2
    if rc == 0 and evaluations == 0:
        log('INCONCLUSIVE: nothing was executed')
        rc = 2
    if rc == 0 and distinct < 2:
        log('INCONCLUSIVE: fewer than 2 distinct non-trivial cases')
        rc = 2
    for idn, k, why in inconclusive[:10]:
        log('inconclusive: %s case %d: %s' % (idn, k, why))
    with open(os.path.join(OUT, 'evidence', pid + '.json'), 'w') as f:
        json.dump(ev, f, indent=1, sort_keys=True)
    log('[%s] %s: %d executions, %d distinct non-trivial, %d new violations, %d known findings, %d inconclusive, %.0f s'
        % (pid, {0: 'HELD on what was explored', 1: 'VIOLATED', 2: 'INCONCLUSIVE/FAILED'}[rc], evaluations, distinct,
           len(new_viol), sum(known_seen.values()), len(inconclusive), wall))
    keys = sorted(counters)
    log('   monitors observed: ' + ', '.join('%s=%d' % (k, counters[k]) for k in keys[:60]))
    return rc
