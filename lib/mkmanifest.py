#!/usr/bin/env python3
"""(re)generate MANIFEST.json from lib/plan.py (keeps commands, techniques and notes in one place)."""
import json, os, sys, subprocess
sys.path.insert(0, os.path.dirname(os.path.abspath(__file__)))
import plan
V = os.path.dirname(os.path.dirname(os.path.abspath(__file__)))

TECH = {
 'C01': ('reference-model oracle over the public receiver tables on generated histories (incl. very large grids), under ASan+UBSan; libFuzzer campaigns in the thorough tier', '5 C01'),
 'C02': ('independent minimax (Dijkstra-with-max) spill-level oracle, ulp-exact comparison, under ASan+UBSan; libFuzzer campaigns in the thorough tier', '5 C02'),
 'C03': ('node-by-node recurrence check + long-double recomputation from the public tables + overload / source-expression differential (bit-exact), under ASan+UBSan; concurrent accumulate under ThreadSanitizer; libFuzzer campaigns in the thorough tier', '5 C03'),
 'C04': ('steepest-descent reference oracle over an independent adjacency model, under ASan+UBSan; ThreadSanitizer on the parallel router; libFuzzer campaigns in the thorough tier', '5 C04'),
 'C05': ('receiver multiset + long-double proportionality oracle, under ASan+UBSan; libFuzzer campaigns in the thorough tier', '5 C05'),
 'C06': ('structural invariant checker over live graph tables after every update (incl. flow paths longer than 65535 nodes), under ASan+UBSan; ThreadSanitizer on the parallel router; coverage-guided libFuzzer campaigns over the generator decisions', '5 C06'),
 'C07': ('bounded exhaustive enumeration of grid configurations against a reference neighbourhood model; query-order, second-grid, second-thread, copy / assignment histories; concurrent look-ups under ASan and ThreadSanitizer', '5 C07'),
 'C08': ('compiler sanitizers (ASan+UBSan, libstdc++ assertions, library asserts) over all harness workloads + table-width invariants; valgrind memcheck and libFuzzer campaigns in the thorough tier', '5 C08'),
 'C09': ('history differential: long-lived graph vs fresh graph, bit-exact state digest; independent graphs on two threads vs one after the other (ASan and ThreadSanitizer); coverage-guided libFuzzer campaigns over the generator decisions', '5 C09'),
 'C10': ('parallel-vs-sequential differential (bit-exact) with hook-driven delay injection + ThreadSanitizer', '5 C10'),
 'C11': ('exactly-once / partition monitors on the real pool, hook-driven delay injection, lost-wake-up detector over the hook event log, watchdog, ThreadSanitizer', '5 C11'),
 'C12': ('reference oracle on erode() output + verification hook recording limited nodes, under ASan+UBSan; independent eroders on two threads (ASan and ThreadSanitizer)', '5 C12'),
 'C13': ('long-double residual oracle of the implicit equation with sensitivity-aware tolerance, under ASan+UBSan; independent eroders on two threads (ASan and ThreadSanitizer); coverage-guided libFuzzer campaigns over the generator decisions', '5 C13'),
 'C14': ('independent dense Gaussian-elimination solve of the two ADI half steps (long double) + metamorphic checks (linearity, status independence, scalar vs array); independent eroders on two threads (ASan and ThreadSanitizer)', '5 C14'),
 'C15': ('independent edge-set / Kruskal oracle (weight multiset), Kruskal-vs-Boruvka differential, reused basin-graph objects; libFuzzer campaigns in the thorough tier', '5 C15'),
 'C16': ('snapshot-vs-prefix-graph differential (bit-exact digest) over update histories + refusal checks', '5 C16'),
 'C17': ('bounded exhaustive enumeration against a reference status composition; filtered iteration in both directions; first iteration / graph construction on a fresh grid shared by several threads (ASan and ThreadSanitizer)', '5 C17'),
 'C18': ('edge-set / cotangent-formula reference oracle in long double on generated triangulations', '5 C18'),
 'C19': ('label-propagation oracle over receivers and dfs order, repeated calls after updates; libFuzzer campaigns in the thorough tier', '5 C19'),
 'C20': ('exhaustive enumeration of operator sequences (length <= 4) against a reference state machine, accepted sequences executed', '5 C20'),
}
LEVEL_TEXT = {
 'default': 'Runtime monitoring: the real library code is executed under AddressSanitizer+UBSan on thousands of generated inputs / histories per run and an independent executable oracle decides each execution. The property is universally quantified over inputs, so this gives "held on K executions covering the classes listed in the evidence", not a proof; quick = every change, thorough = larger grids, longer histories, 16 processes.',
 'C07': 'Exhaustive within stated bounds for grid shape / spacing / border-status configurations (evidence: exhaustive=true), sampled for query orders and larger grids; every accessor compared with a reference model under ASan+UBSan.',
 'C17': 'Exhaustive within stated bounds for structured-grid border-status combinations x 8 override-map variants (evidence: exhaustive=true), sampled for larger grids and meshes.',
 'C20': 'Exhaustive over all 2800 operator sequences of length <= 4 per grid type (evidence: exhaustive=true); the field used when executing accepted sequences is sampled.',
 'C08': 'Sanitizer verdict on every path the generators of all other properties reach (the quantifier of the property); a clean run is "no report on what was executed", not memory safety.',
 'C10': 'Schedules are sampled, not enumerated: bit-exact differential against the sequential execution under seeded delay injection at the pool hooks, plus ThreadSanitizer (happens-before analysis generalises over timings of the observed synchronisation).',
 'C11': 'Schedules are sampled, not enumerated: monitors on the real pool under targeted delay plans (incl. the lost-wake-up window), logical deadlock detector + watchdog for termination (bounded progress), ThreadSanitizer for the memory-model clause.',
}

def main():
    props = [json.loads(l)['id'] for l in open(os.path.join(V, 'properties.jsonl'))]
    try:
        hooks_commit = subprocess.check_output(['git', '-C', '/repo', 'log', '--format=%h', '--grep=verif hooks', '-n', '1'], text=True).strip()
    except Exception:
        hooks_commit = ''
    checks = []
    for p in props:
        if p not in plan.PLAN:
            continue
        tech, ref = TECH[p]
        checks.append({
            'property_id': p,
            'quick_cmd': './check %s --tier quick' % p,
            'thorough_cmd': './check %s --tier thorough' % p,
            'evidence_file': 'evidence/%s.json' % p,
            'replay_cmd_template': './check %s --replay {path}' % p,
            'engine': 'vdriver',
            'level_claimed': {'category': 'exploration', 'text': LEVEL_TEXT.get(p, LEVEL_TEXT['default']), 'design_ref': 'DESIGN.md section ' + ref},
            'level_note': '; '.join(plan.PLAN[p].get('assumptions', []) + ['trusted base: g++ 12 sanitizer runtimes, the harness oracles under /verif/harness, the driver /verif/lib/vdriver.py']),
            'technique': tech,
        })
    na = [{'property_id': p, 'reason': 'check not built yet'} for p in props if p not in plan.PLAN]
    m = {
        'version': 1,
        'setup_cmd': './check --build-all',
        'hooks': {
            'guard': 'FASTSCAPELIB_VERIF_HOOKS',
            'enable': 'header-only library: every harness translation unit is compiled with -DFASTSCAPELIB_VERIF_HOOKS -I/repo/include (see lib/vdriver.py COMMON_FLAGS)',
            'baseline_off_cmd': 'cmake --build /repo/_build -j16 && ctest --test-dir /repo/_build -j8 --timeout 900',
            'source_commits': [hooks_commit] if hooks_commit else [],
            'add_only': True,
        },
        'engines': [
            {'name': 'vdriver', 'path': 'check', 'serves_properties': [c['property_id'] for c in checks],
             'kind_free_text': 'python driver: rebuilds the harness binaries from /repo/include when its hash changes (ASan+UBSan, TSan, plain, libFuzzer), '
                               'runs up to 16 shard processes, attributes sanitizer aborts / hangs to the running case, matches violation '
                               'keys against KNOWN_FINDINGS.txt, writes evidence'},
            {'name': 'h_grid', 'path': 'harness/h_grid.cpp', 'serves_properties': ['C07', 'C17', 'C18', 'C08'], 'kind_free_text': 'grid reference-model monitors'},
            {'name': 'h_flow', 'path': 'harness/h_flow.cpp', 'serves_properties': ['C01', 'C02', 'C03', 'C04', 'C05', 'C06', 'C15', 'C19', 'C08'], 'kind_free_text': 'flow-graph oracles over public tables'},
            {'name': 'h_hist', 'path': 'harness/h_hist.cpp', 'serves_properties': ['C09', 'C16', 'C20', 'C08'], 'kind_free_text': 'history / differential monitors'},
            {'name': 'h_erode', 'path': 'harness/h_erode.cpp', 'serves_properties': ['C12', 'C13', 'C14', 'C08'], 'kind_free_text': 'eroder oracles'},
            {'name': 'h_conc', 'path': 'harness/h_conc.cpp', 'serves_properties': ['C10', 'C11', 'C08'], 'kind_free_text': 'pool / parallel monitors with schedule hooks, ASan and TSan flavours'},
        ],
        'checks': checks,
        'notes': 'Family: runtime monitoring and sanitizers. Known findings and repaired defects: KNOWN_FINDINGS.txt. Seeded changes used to '
                 'calibrate the monitors: seeded/. Design and limits: DESIGN.md.',
        'not_applicable': na,
    }
    json.dump(m, open(os.path.join(V, 'MANIFEST.json'), 'w'), indent=1)
    print('MANIFEST.json: %d checks, %d not applicable' % (len(checks), len(na)))

if __name__ == '__main__':
    main()
