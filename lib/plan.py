"""Per-property run plans: which harness binaries, how many processes and cases, per tier.

A run is a dict: harness, kind, flavour, nshards, cases (per shard), extra (argv), prop (defaults to the
property of the check). `floor` lists monitor counters that must be positive, otherwise the check is
inconclusive (exit 2): a run whose monitors observed nothing proves nothing.
"""

STRUCT = ['profile', 'profile_nc', 'raster_rook', 'raster_queen', 'raster_bishop', 'raster_rook_nc',
          'raster_queen_nc', 'raster_bishop_nc']
RASTERS = [k for k in STRUCT if k.startswith('raster')]
ALL9 = STRUCT + ['trimesh']
# grid configurations used by the flow / history / eroder harnesses
FLOW6 = ['profile', 'raster_rook', 'raster_queen', 'raster_bishop', 'raster_queen_nc', 'trimesh']
CONC5 = ['raster_queen', 'raster_rook_nc', 'profile', 'profile_nc', 'trimesh']

HARNESS_KINDS = {
    'h_grid': ALL9,
    'h_flow': FLOW6,
    'h_hist': FLOW6,
    'h_erode': FLOW6,
    'h_conc': CONC5,
}


def all_binaries(flavours):
    out = []
    for h, kinds in HARNESS_KINDS.items():
        import os
        from vdriver import VERIF
        if not os.path.exists(os.path.join(VERIF, 'harness', h + '.cpp')):
            continue
        for k in kinds:
            for f in flavours:
                if f == 'tsan' and h != 'h_conc':
                    continue
                if f == 'plain' and h == 'h_conc':
                    continue
                out.append((h, k, f))
    return out


def runs(harness, kinds, flavour, nshards, cases, extra=None, prop=None, **kw):
    out = []
    for k in kinds:
        r = {'harness': harness, 'kind': k, 'flavour': flavour, 'nshards': nshards, 'cases': cases,
             'extra': list(extra or [])}
        if prop:
            r['prop'] = prop
        r.update(kw)
        out.append(r)
    return out


PLAN = {}

# ------------------------------------------------------------------------------------------------ C07
PLAN['C07'] = {
    'rule': 'Exhaustive enumeration (per grid type: profile sizes 2..12 x 3 spacings x all 16 border-status '
            'combinations; raster shapes {2..6}^2 + 2x9, 9x2, 7x11 x 3 spacings (isotropic and anisotropic) x all 256 '
            'border-status combinations; each once without and once with a random per-node override map) plus random '
            'larger grids. Every admissible grid is queried under 2 of 7 query plans (forward, reverse, random, '
            'repeated, interleaved accessor kinds, interleaved with a second grid object, partly from another thread) '
            'on the same object; every accessor is compared with a reference neighbourhood computed from the '
            'specification only. A case is non-trivial when the specification is admissible (a grid was built and '
            'queried); distinct = distinct specification hashes.',
    'floor': ['c07.accessor_checks', 'c07.grids_looped_size2_axis', 'c07.symmetry_checks', 'c07.order.two_grids',
              'c07.order.other_thread'],
    'exhaustive_counter': 'enumerated_cases',
    'exhaustive_scope': 'shapes/spacings/border combinations listed in rule, for each of the 8 structured grid '
                        'configurations (3 connectivities, cache on/off, profile on/off); query orders are sampled',
    'assumptions': ['reference neighbourhood model in harness/common/gridkinds.hpp (wrap only across looped axes, '
                    'Euclidean step length, distances compared within 2 ulp)',
                    'inadmissible border combinations are covered by C17'],
    'quick': lambda seed: runs('h_grid', STRUCT, 'asan', 2, 10 ** 9, ['--x-random', '30']),
    'thorough': lambda seed: runs('h_grid', STRUCT, 'asan', 4, 10 ** 9, ['--x-random', '1500']),
}

# ------------------------------------------------------------------------------------------------ C17
PLAN['C17'] = {
    'rule': 'Exhaustive enumeration (profile sizes 2..8 x 16 border combinations, raster shapes {2..5}^2 x 256 border '
            'combinations, each x 8 override-map variants: empty, single, random, corners, border, out-of-range, '
            'containing looped, border+interior) plus random larger grids and (trimesh) random meshes with default / '
            'map / array statuses. Status array compared with the documented composition; inadmissible specifications '
            'must throw; nodes_indices() and nodes_indices(status) forward and reversed compared with the filtered '
            'index lists; default base levels of a new flow graph compared with the fixed-value nodes. Non-trivial: '
            'every case (either a rejection was demanded or a grid was checked); distinct = distinct specification hashes.',
    'floor': ['c17.status_arrays_compared', 'c17.filtered_iterations', 'c17.rejections_observed',
              'c17.base_level_sets_compared', 'c17.empty_filter_results'],
    'exhaustive_counter': 'enumerated_cases',
    'exhaustive_scope': 'structured grids: sizes/shapes and border combinations listed in rule; override maps and meshes are sampled',
    'assumptions': ['any std::exception counts as "construction fails with an error"'],
    'quick': lambda seed: runs('h_grid', STRUCT, 'asan', 2, 10 ** 9, ['--x-random', '30'])
                          + runs('h_grid', ['trimesh'], 'asan', 4, 150),
    'thorough': lambda seed: runs('h_grid', STRUCT, 'asan', 4, 10 ** 9, ['--x-random', '2000'])
                             + runs('h_grid', ['trimesh'], 'asan', 16, 1500),
}

# ------------------------------------------------------------------------------------------------ C18
PLAN['C18'] = {
    'rule': 'Random triangulations: regular / jittered / stretched (obtuse) lattices with a random diagonal per cell '
            'and random vertex order per triangle, lattices with holes, with isolated extra points, fans (hub degree up '
            'to 20), strips; minimum angle >= 1 degree. Neighbour sets, distances, default boundary status and node '
            'areas compared with an edge-set / cotangent-formula reference computed in long double. Non-trivial: the '
            'mesh was accepted and checked; distinct = distinct (points, triangles, status) hashes.',
    'floor': ['c18.nodes_checked', 'c18.area_sums_compared', 'c18.default_status_checked', 'c18.class.fan',
              'c18.class.holes', 'c18.class.stretched_obtuse', 'c18.class.isolated_points'],
    'assumptions': ['meshes are conforming triangulations with <= 20 neighbours per node and min angle >= 1 degree',
                    'node area tolerance 1e-9 x sum of |cotangent terms| (conditioning), area sum tolerance 1e-10 relative'],
    'quick': lambda seed: runs('h_grid', ['trimesh'], 'asan', 8, 250),
    'thorough': lambda seed: runs('h_grid', ['trimesh'], 'asan', 16, 6000),
}
