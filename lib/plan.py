"""Per-property run plans: which harness binaries, how many processes and cases, per tier.

A run is a dict: harness, kind, flavour, nshards, cases (per shard), extra (argv), prop (defaults to the
property of the check). `floor` lists monitor counters that must be positive, otherwise the check is
inconclusive (exit 2): a run whose monitors observed nothing proves nothing.
"""

STRUCT = ['profile', 'profile_nc', 'raster_rook', 'raster_queen', 'raster_bishop', 'raster_rook_nc',
          'raster_queen_nc', 'raster_bishop_nc']
RASTERS = [k for k in STRUCT if k.startswith('raster')]
ALL9 = STRUCT + ['trimesh']
# grid configurations used by the flow / history / eroder harnesses
FLOW6 = ['profile', 'raster_rook', 'raster_queen', 'raster_bishop', 'raster_queen_nc', 'trimesh']
CONC5 = ['raster_queen', 'raster_rook_nc', 'profile', 'profile_nc', 'trimesh']

HARNESS_KINDS = {
    'h_grid': ALL9,
    'h_flow': FLOW6,
    'h_hist': FLOW6,
    'h_erode': FLOW6,
    'h_conc': CONC5,
}


def all_binaries(flavours):
    out = []
    for h, kinds in HARNESS_KINDS.items():
        import os
        from vdriver import VERIF
        if not os.path.exists(os.path.join(VERIF, 'harness', h + '.cpp')):
            continue
        for k in kinds:
            for f in flavours:
                if f == 'tsan' and h != 'h_conc':
                    continue
                if f == 'plain' and h == 'h_conc':
                    continue
                out.append((h, k, f))
    return out


def fuzz_binaries():
    return [(h, k, 'fuzz') for h in ('h_flow', 'h_erode', 'h_hist') for k in FLOW6]


def runs(harness, kinds, flavour, nshards, cases, extra=None, prop=None, **kw):
    out = []
    for k in kinds:
        r = {'harness': harness, 'kind': k, 'flavour': flavour, 'nshards': nshards, 'cases': cases,
             'extra': list(extra or [])}
        if prop:
            r['prop'] = prop
        r.update(kw)
        out.append(r)
    return out


PLAN = {}

# ------------------------------------------------------------------------------------------------ C07
PLAN['C07'] = {
    'rule': 'Exhaustive enumeration (per grid type: profile sizes 2..12 x 3 spacings x all 16 border-status '
            'combinations; raster shapes {2..6}^2 + 2x9, 9x2, 7x11 x 3 spacings (isotropic and anisotropic) x all 256 '
            'border-status combinations; each once without and once with a random per-node override map) plus random '
            'larger grids. Every admissible grid is queried under 2 of 7 query plans (forward, reverse, random, '
            'repeated, interleaved accessor kinds, interleaved with a second grid object, partly from another thread) '
            'on the same object; every accessor is compared with a reference neighbourhood computed from the '
            'specification only. A case is non-trivial when the specification is admissible (a grid was built and '
            'queried); distinct = distinct specification hashes.',
    'floor': ['c07.accessor_checks', 'c07.grids_looped_size2_axis', 'c07.symmetry_checks', 'c07.order.two_grids',
              'c07.order.other_thread', 'c07.wide_grids'],
    'exhaustive_counter': 'enumerated_cases',
    'exhaustive_scope': 'shapes/spacings/border combinations listed in rule, for each of the 8 structured grid '
                        'configurations (3 connectivities, cache on/off, profile on/off); query orders are sampled',
    'assumptions': ['reference neighbourhood model in harness/common/gridkinds.hpp (wrap only across looped axes, '
                    'Euclidean step length, distances compared within 2 ulp)',
                    'inadmissible border combinations are covered by C17'],
    'quick': lambda seed: runs('h_grid', STRUCT, 'asan', 2, 10 ** 9, ['--x-random', '30']),
    'thorough': lambda seed: runs('h_grid', STRUCT, 'asan', 4, 10 ** 9, ['--x-random', '1500']),
}

# ------------------------------------------------------------------------------------------------ C17
PLAN['C17'] = {
    'rule': 'Exhaustive enumeration (profile sizes 2..8 x 16 border combinations, raster shapes {2..5}^2 x 256 border '
            'combinations, each x 8 override-map variants: empty, single, random, corners, border, out-of-range, '
            'containing looped, border+interior) plus random larger grids and (trimesh) random meshes with default / '
            'map / array statuses. Status array compared with the documented composition; inadmissible specifications '
            'must throw; nodes_indices() and nodes_indices(status) forward and reversed compared with the filtered '
            'index lists; default base levels of a new flow graph compared with the fixed-value nodes. Non-trivial: '
            'every case (either a rejection was demanded or a grid was checked); distinct = distinct specification hashes.',
    'floor': ['c17.status_arrays_compared', 'c17.filtered_iterations', 'c17.rejections_observed',
              'c17.base_level_sets_compared', 'c17.empty_filter_results'],
    'exhaustive_counter': 'enumerated_cases',
    'exhaustive_scope': 'structured grids: sizes/shapes and border combinations listed in rule; override maps and meshes are sampled',
    'assumptions': ['any std::exception counts as "construction fails with an error"'],
    'quick': lambda seed: runs('h_grid', STRUCT, 'asan', 2, 10 ** 9, ['--x-random', '30'])
                          + runs('h_grid', ['trimesh'], 'asan', 4, 150),
    'thorough': lambda seed: runs('h_grid', STRUCT, 'asan', 4, 10 ** 9, ['--x-random', '2000'])
                             + runs('h_grid', ['trimesh'], 'asan', 16, 1500),
}

# ------------------------------------------------------------------------------------------------ C18
PLAN['C18'] = {
    'rule': 'Random triangulations: regular / jittered / stretched (obtuse) lattices with a random diagonal per cell '
            'and random vertex order per triangle, lattices with holes, with isolated extra points, fans (hub degree up '
            'to 20), strips; minimum angle >= 1 degree. Neighbour sets, distances, default boundary status and node '
            'areas compared with an edge-set / cotangent-formula reference computed in long double. Non-trivial: the '
            'mesh was accepted and checked; distinct = distinct (points, triangles, status) hashes.',
    'floor': ['c18.nodes_checked', 'c18.area_sums_compared', 'c18.default_status_checked', 'c18.class.fan',
              'c18.class.holes', 'c18.class.stretched_obtuse', 'c18.class.isolated_points'],
    'assumptions': ['meshes are conforming triangulations with <= 20 neighbours per node and min angle >= 1 degree',
                    'node area tolerance 1e-9 x sum of |cotangent terms| (conditioning), area sum tolerance 1e-10 relative'],
    'quick': lambda seed: runs('h_grid', ['trimesh'], 'asan', 8, 1500),
    'thorough': lambda seed: runs('h_grid', ['trimesh'], 'asan', 16, 6000),
}


# ------------------------------------------------------------------------------------------------ flow harness (h_flow)
FLOW_GEN = ('Random short histories (1-3 updates on one graph object) over random grids (profile, raster rook/queen/'
            'bishop, cache-less queen raster, triangular mesh; all admissible border-status mixes incl. looped and '
            'size-2 looped axes, per-node status overrides, anisotropic spacing), elevation classes {uniform, ties, '
            'flat (incl. +-0, negative), plane+pits, nested bowls, tiny/subnormal, large with 1-ulp differences, '
            'patterns, ramps, plateau steps}, masks {none, Bernoulli 0.05/0.3, walls, rings}, base levels {default, '
            'single node, random subset, partial border}; mask / base levels / operator parameters change between '
            'updates. distinct = distinct hashes of (grid, operators, inputs of every update). ')


def flow_plan(prop, quick_cases, thorough_cases, rule, floor, assumptions=None, kinds=None):
    kinds = kinds or FLOW6
    return {
        'rule': FLOW_GEN + rule,
        'floor': floor,
        'assumptions': assumptions or [],
        'quick': lambda seed: runs('h_flow', kinds, 'asan', 2, quick_cases * 10),
        'thorough': lambda seed: runs('h_flow', kinds, 'asan', 3, 8000),
    }


PLAN['C01'] = flow_plan(
    'C01', 250, 12000,
    'Operator sequences with a sink resolver: [pflood, single|multi], [single, mst(kruskal|boruvka, basic|carve)] '
    'optionally followed by a single or multiple direction router, snapshots interleaved. Oracle: base-level/masked '
    'nodes are their own single receiver; every receiver edge strictly decreases the returned elevation; no unmasked '
    'node connected to an unmasked base level is its own receiver; bounded receiver walk ends at a base level. '
    'Non-trivial: the input of some update had a pit that is not a base level.',
    ['c01.states_with_input_pits', 'c01.edges_checked', 'c01.paths_followed', 'seq.pflood+single', 'seq.pflood+multi',
     'seq.mst-carve+none', 'seq.mst-basic+none'],
    ['masked base levels are not generated (the statement does not define them)',
     'every case has at least one unmasked base level (documented requirement of routing)'])

PLAN['C02'] = flow_plan(
    'C02', 250, 12000,
    'Same sequences as C01. Oracle: independent minimax (Dijkstra with max) spill level L over the reference adjacency; '
    'returned elevation >= input everywhere, bit-identical at base levels and masked nodes, elsewhere '
    '0 <= ord(h) - ord(L) <= N (one floating-point increment per node). Non-trivial: some node had to be raised (L > z).',
    ['c02.states_with_filling', 'c02.nodes_compared', 'seq.pflood+single', 'seq.mst-carve+none', 'seq.mst-basic+none'],
    ['nodes of unmasked components without a base level are skipped and counted (outside the quantifier)'])

PLAN['C03'] = flow_plan(
    'C03', 250, 12000,
    'Any valid operator sequence (single, multiple, with/without resolvers and snapshots, single after multiple). '
    'Sources: scalar, uniform array, random positive, mixed sign, one-hot. Oracle: recurrence recomputed from the public '
    'tables in Kahn order in long double (tolerance 1e-12 x sum of |contributions|); conservation at terminal nodes; '
    'non-negative source >= local contribution exactly; the 4 overloads bit-identical (in-place into a dirty array). '
    'Non-trivial: graph has a node with >= 2 donors or >= 2 receivers.',
    ['c03.nodes_compared', 'c03.conservation_checked', 'c03.scalar_overloads_compared', 'c03.source.mixed_sign',
     'final.multi', 'final.single'])

PLAN['C04'] = flow_plan(
    'C04', 250, 12000,
    'Sequences whose last graph-updating operator is a single-direction router (sequential or 2-4 threads): [single], '
    '[pflood, single], [single, mst, single], [multi, single], [single, single]. Oracle against the returned elevation: '
    'self receiver iff no unmasked neighbour strictly lower, else an adjacent unmasked strictly lower neighbour attaining '
    'the maximal slope (same double arithmetic, any maximiser), stored distance = grid distance (2 ulp), weight 1, count 1. '
    'Non-trivial: a node with >= 2 strictly lower neighbours of different slope.',
    ['c04.nodes_checked', 'field.tiny', 'field.flat'])

PLAN['C05'] = flow_plan(
    'C05', 250, 12000,
    'Sequences whose last operator is the multiple-direction router with exponent p in {0,0.5,1,1.1,2,5,10} (changed '
    'between updates through the shared operator): [multi], [pflood, multi], [single, mst, multi], [single, multi]. '
    'Oracle: receivers = multiset of strictly lower unmasked neighbours with distances; weights finite in [0,1], sum 1 '
    '(1e-12); proportional to slope^p in long double (1e-10) when every slope^p is a normal double, otherwise '
    'monotonic. Non-trivial: a node with >= 2 receivers.',
    ['c05.nodes_checked', 'c05.proportionality_checked_nodes', 'c05.ill_conditioned_nodes', 'param_change.slope_exp',
     'field.tiny', 'field.flat'])

PLAN['C06'] = flow_plan(
    'C06', 250, 12000,
    'Any valid operator sequence, checked after every update. Oracle: counts within table widths, donors = inverse of '
    'receivers for distinct nodes with multiplicity, dfs order a permutation with every node after its receivers, bfs '
    'order a permutation with strictly increasing level bounds 0..N and every receiver in a strictly earlier level. '
    'Non-trivial: >= 3 breadth-first levels and a node with >= 2 donors.',
    ['c06.edges_checked', 'c06.states_checked', 'final.multi', 'final.single', 'seq.mst-carve+none', 'seq.mst-basic+none'])

# accumulate() is a const query that may be called from several threads on one routed graph: h_conc runs concurrent calls
# (asan: results compared with the sequential ones; tsan: any report is a violation)
_c03q, _c03t = PLAN['C03']['quick'], PLAN['C03']['thorough']
PLAN['C03']['quick'] = lambda seed: _c03q(seed) + runs('h_conc', ['raster_queen'], 'asan', 1, 18, ['--x-repeats', '1'], prop='C03', case_timeout=300) \
                                    + runs('h_conc', ['trimesh'], 'tsan', 1, 18, ['--x-delays', '0', '--x-repeats', '1'], prop='C03', case_timeout=300)
PLAN['C03']['thorough'] = lambda seed: _c03t(seed) + runs('h_conc', ['raster_queen', 'trimesh'], 'asan', 1, 150, prop='C03', case_timeout=600) \
                                       + runs('h_conc', ['raster_queen', 'trimesh'], 'tsan', 1, 60, ['--x-delays', '0'], prop='C03', case_timeout=900)
PLAN['C03']['rule'] += (' Plus concurrent accumulate() calls from two threads with different sources on one routed graph (h_conc, ASan and TSan '
                        'flavours): each must return the bits of the sequential call.')
PLAN['C03']['floor'] = PLAN['C03']['floor'] + ['c03.concurrent_accumulate_rounds', 'c03.snapshot_graphs_checked', 'c03.unit_source_checks']
PLAN['C03']['max_parallel'] = 12

# the multi-threaded single router is part of C04's quantifier: ThreadSanitizer run of the parallel router workload
_c04q, _c04t = PLAN['C04']['quick'], PLAN['C04']['thorough']
PLAN['C04']['quick'] = lambda seed: _c04q(seed) + runs('h_conc', ['raster_rook_nc'], 'tsan', 1, 10, ['--x-delays', '0', '--x-repeats', '1'], prop='C04', case_timeout=300)
PLAN['C04']['thorough'] = lambda seed: _c04t(seed) + runs('h_conc', ['raster_queen', 'raster_rook_nc', 'trimesh'], 'tsan', 1, 60, ['--x-delays', '0'], prop='C04', case_timeout=900)
PLAN['C04']['rule'] += ' Plus a ThreadSanitizer run of the multi-threaded router workload (h_conc): a race while routing is a violation.'

# the donor table is also filled by the multi-threaded router: a ThreadSanitizer run of the parallel workload belongs to C06
_c06q, _c06t = PLAN['C06']['quick'], PLAN['C06']['thorough']
PLAN['C06']['quick'] = lambda seed: _c06q(seed) + runs('h_conc', ['raster_queen'], 'tsan', 1, 10, ['--x-delays', '0', '--x-repeats', '1'], prop='C06', case_timeout=300)
PLAN['C06']['thorough'] = lambda seed: _c06t(seed) + runs('h_conc', ['raster_queen', 'trimesh'], 'tsan', 1, 80, ['--x-delays', '0'], prop='C06', case_timeout=900)
PLAN['C06']['rule'] += ' Plus a ThreadSanitizer run of the multi-threaded router workload (h_conc): a race on the donor / receiver tables is a violation.'

PLAN['C15'] = {
    'rule': FLOW_GEN + 'Single-router graph, basins(), then one Kruskal and one Boruvka basin_graph object reused over 1-4 '
            'updates (ties and patterns favoured: equal-weight edges, hub basins). Oracle: independent edge set (lowest pass '
            'per adjacent basin pair with an inner basin; root links), pass nodes adjacent / in the right basins / achieving the '
            'pass elevation, tree acyclic and spanning exactly the basins reachable from the root with one fewer edge, sorted '
            'weight multiset equal to the harness Kruskal MST, Kruskal = Boruvka multisets, orientation by BFS depth. '
            'Non-trivial: >= 3 reachable basins and a cycle in the basin graph.',
    'floor': ['c15.trees_checked', 'c15.edges_checked', 'c15.graphs_with_degree_above_16', 'c15.graphs_with_unreachable_basins'],
    'assumptions': ['all MSTs of a graph share the sorted weight multiset (used instead of floating-point sums)'],
    'quick': lambda seed: runs('h_flow', FLOW6, 'asan', 2, 2000),
    'thorough': lambda seed: runs('h_flow', FLOW6, 'asan', 3, 6000),
}

PLAN['C19'] = flow_plan(
    'C19', 250, 12000,
    'Sequences ending in a single-direction state (router only, pflood+router, spanning-tree resolver variants, single after '
    'multiple), masks, basins() called once or twice after every update. Oracle: label = label of the receiver, outlets '
    'numbered 0.. in bottom-up (dfs) order, masked nodes carry the maximum label, label count = unmasked outlets = '
    'impl().outlets(), pits() = outlets that are not base levels. Non-trivial: >= 2 basins.',
    ['c19.delineations_checked', 'c19.snapshot_graphs_checked'])


# ------------------------------------------------------------------------------------------------ history harness (h_hist)
PLAN['C09'] = {
    'rule': 'Random histories (5-14 events quick, 5-40 thorough) on one long-lived graph: update_routes with tie-heavy '
            'fields, set_base_levels (shrink / grow / re-order with duplicates / restore an earlier set / new set), set_mask, '
            'operator parameter changes through the shared operator pointers (slope exponent, MST route method, MST basin '
            'method), accumulate, basins. After every update: the caller\'s array is bit-identical to a copy; the state digest '
            '(returned elevation, meaningful receivers / distances / weights / counts, donors, dfs, bfs + levels, accumulate(1), '
            'accumulate(src), basins on single-direction graphs) equals bit for bit that of a fresh graph on a fresh grid object '
            'given only the current inputs; repeating the call reproduces it. Sequences: pflood+single|multi, single+mst variants '
            '(+multi, +snapshots), router only. Non-trivial: >= 2 updates with different inputs and a base-level / mask / parameter '
            'change between two updates. distinct = distinct hashes of (grid, operators, inputs of every update).',
    'floor': ['c09.updates_compared_with_fresh_graph', 'c09.repeated_calls_compared', 'c09.event.set_base_levels',
              'c09.event.set_mask', 'c09.event.basin_method', 'c09.event.route_method', 'c09.event.slope_exp'],
    'assumptions': ['donors are compared as sorted multisets (their storage order is not part of the statement); everything '
                    'else bit for bit', 'masked base levels are not generated'],
    'quick': lambda seed: runs('h_hist', FLOW6, 'asan', 2, 900),
    'thorough': lambda seed: runs('h_hist', FLOW6, 'asan', 3, 4000),
}

PLAN['C16'] = {
    'rule': 'Random valid sequences with 1-3 graph / elevation snapshots inserted at arbitrary valid positions, 2-4 updates '
            'with changing fields, masks, base levels and slope exponents. After every update each graph snapshot digest '
            '(receivers, counts, distances, weights, donors, dfs, bfs + levels, accumulate(1), accumulate(src), basins and pits '
            'for single-direction snapshots, breadth-first and depth-first kernel outputs) is compared bit for bit with a graph '
            'that runs only the operators before the snapshot on the same inputs (own grid object); elevation snapshots with the '
            'elevation returned by that prefix graph; update_routes / set_base_levels / set_mask on a snapshot must fail. '
            'Non-trivial: >= 1 snapshot and >= 2 updates. distinct = distinct hashes of (grid, operators, inputs).',
    'floor': ['c16.graph_snapshots_compared', 'c16.elevation_snapshots_compared', 'c16.refusals_checked',
              'c16.snapshots_reread_before_next_update',
              'c16.single_flow_snapshots', 'c16.multi_flow_snapshots'],
    'assumptions': ['a prefix without a router (e.g. [pflood]) is completed with a single router, which does not edit elevation; '
                    'only the elevation is compared then'],
    'quick': lambda seed: runs('h_hist', FLOW6, 'asan', 2, 1200),
    'thorough': lambda seed: runs('h_hist', FLOW6, 'asan', 3, 8000),
}

PLAN['C20'] = {
    'rule': 'All 7 + 7^2 + 7^3 + 7^4 = 2800 sequences over {single router, single router (4 threads), multiple router, '
            'priority-flood resolver, spanning-tree resolver, graph snapshot, elevation snapshot} on each of 6 grid types, built '
            'through the run-time factory the bindings use. A 20-line reference state machine predicts accept / reject, final '
            'direction, receiver table width, snapshot key lists, and whether update_routes returns the caller\'s array; accepted '
            'sequences are executed once on a random small field with the C06 invariants. Non-trivial: every sequence.',
    'floor': ['c20.accepted', 'c20.rejections_expected', 'c20.executed', 'c20.returned_callers_array', 'c20.returned_own_copy'],
    'exhaustive_counter': 'enumerated_cases',
    'exhaustive_scope': 'all operator sequences of length 1..4 over the 7-letter alphabet, per grid type; the field used for '
                        'execution is sampled',
    'assumptions': ['any std::exception counts as "construction fails with an error"'],
    'quick': lambda seed: runs('h_hist', FLOW6, 'asan', 3, 10 ** 9),
    'thorough': lambda seed: runs('h_hist', FLOW6, 'asan', 3, 10 ** 9),
}


# ------------------------------------------------------------------------------------------------ eroder harness (h_erode)
SPL_GEN = ('Random grids / fields / masks / base levels as for the flow harness; graphs: single or multiple direction, '
           'unresolved, priority-flood or spanning-tree resolved; one spl_eroder object driven through 1-3 steps (new field or '
           'previous field minus erosion plus local subsidence; K, m, n changed through the setters); elevation passed filled or '
           'unfilled (lakes); drainage area = accumulate(1) or random positive; K scalar or array >= 0 with zeros; m in '
           '{0.3,0.5,1}; n in {0.5,0.8,1,1.5,2,3,4,6} (1 on multiple-direction graphs); dt in {0,1e-3,1,1e3,1e5,1e8}; tolerance in '
           '{1e-6,1e-3,1e-1}; K dt A^m / L^n kept <= 1e250; 1e6..1e12 magnitudes not combined with n != 1. ')

PLAN['C12'] = {
    'rule': SPL_GEN + 'Oracle: erosion exactly 0 at self-receivers and at lake nodes (z <= lowest post-erosion receiver); >= -8 eps '
            'max|z|; a lowered node stays >= lowest post-erosion receiver (same tolerance); n_corr() = number of nodes recorded by '
            'the verification hook, each of them on its floor; constructing / set_slope_exp with n in {0.3,0.5,0.8,0.999,1.001,1.5,2} '
            'on a multiple-direction graph throws, n = 1 does not. Non-trivial: some node was eroded.',
    'floor': ['c12.nodes_checked', 'c12.lake_nodes', 'c12.limited_nodes', 'c12.rejections_expected', 'c12.repeated_rejections_checked',
              'c12.snapshot_rejection_checks', 'spl.graph.multi',
              'spl.graph.single', 'spl.elevation.unfilled', 'spl.slope_exp.below_one', 'spl.slope_exp.above_one'],
    'assumptions': ['parameter products finite (<= 1e250)', 'Newton tolerance >= 1e-6 with |z| <= 1e5 for n != 1'],
    'quick': lambda seed: runs('h_erode', FLOW6, 'asan', 2, 10000),
    'thorough': lambda seed: runs('h_erode', FLOW6, 'asan', 3, 12000),
}

PLAN['C13'] = {
    'rule': SPL_GEN + 'Oracle: for every node that is not a self-receiver, not in a lake and not recorded as limited by the '
            'verification hook, the backward-Euler residual (new - old + sum over lower receivers of dt K (A w)^m (drop/L)^n) '
            'evaluated in long double is within 1e-9 x sum|terms| + rounding of the stored elevations amplified by the sensitivity '
            'of the equation (+ the Newton tolerance when n != 1). Non-trivial: a checked node was eroded. Exponents below, at '
            'and above one must all be reached.',
    'floor': ['c13.nodes_checked.n_below_one', 'c13.nodes_checked.n_one', 'c13.nodes_checked.n_above_one', 'c13.lake_nodes_checked',
              'spl.slope_exp.near_one',
              'c13.eroded_nodes_checked', 'spl.graph.multi', 'spl.elevation.unfilled', 'spl.param_change.slope_exp'],
    'assumptions': ['limited nodes are identified by the SPL verification hook (verif_corrected_nodes)',
                    'nodes whose drop rounds to <= 0 with n <= 1 are skipped and counted (infinite sensitivity)'],
    'quick': lambda seed: runs('h_erode', FLOW6, 'asan', 2, 10000),
    'thorough': lambda seed: runs('h_erode', FLOW6, 'asan', 3, 12000),
}

RASTER4 = ['raster_rook', 'raster_queen', 'raster_bishop', 'raster_queen_nc']
PLAN['C14'] = {
    'rule': 'Raster shapes 3..12 (quick) / 3..20 (thorough) per axis, isotropic and anisotropic spacing (0.05..500), any border '
            'status mix; one eroder object driven through 1-4 steps with K changed through set_k_coef (scalar, uniform array, '
            'arrays with relative variation 1e-8..1e-2, arrays varying by 400x; magnitudes 1e-10..1e3) and dt in {1e-3,1,1e3,1e8} '
            '(often unchanged between steps); all elevation classes. Oracle: independent dense Gaussian elimination (partial '
            'pivoting, long double) of the two Peaceman-Rachford half steps with face-averaged diffusivity and fixed-value borders; '
            'tolerance 16 eps (1 + 4 dt f_max) max|z| max(rows, cols); zero erosion on the borders exactly; fresh eroder on a grid '
            'with other border statuses bit-identical; scalar vs uniform array; linearity. Non-trivial: non-zero erosion somewhere.',
    'floor': ['c14.interior_nodes_compared', 'c14.stiff_steps', 'c14.moderate_steps', 'c14.k_changed_on_same_eroder',
              'c14.same_dt_as_previous_step', 'c14.status_independence_checks', 'c14.scalar_vs_uniform_array_checks',
              'c14.linearity_checks', 'c14.k.array_small_relative_variation', 'c14.k_given_as_float_array'],
    'assumptions': ['rounding of the explicit part of a half step is amplified by (1 + 4 dt f): the tolerance grows with stiffness'],
    'quick': lambda seed: runs('h_erode', RASTER4, 'asan', 3, 6000),
    'thorough': lambda seed: runs('h_erode', RASTER4, 'asan', 4, 15000),
}


# ------------------------------------------------------------------------------------------------ concurrency harness (h_conc)
PLAN['C11'] = {
    'rule': 'Histories of the grammar the library issues, driven on the pool directly: pool(size 1..16); (resume; resize(1..16 or '
            'unchanged); 0-4 x run_blocks(first in {0,5,1000}, length in {0,1,2,n-1,n,n+1,37,1000,2000|5000}, min_size in '
            '{0,1,3,len,len+1,1e6}); pause | destroy) x 1-4; destroy (paused / running / never started); every 4th case drives the '
            'pool through flow-graph histories (parallel router + kernels with changing thread counts). Monitors read immediately '
            'after run_blocks returns: per-index counters (all 1 inside, 0 in guard zones), callback writes to plain memory, one '
            'block per runner id, blocks contiguous / disjoint / covering the range / at most pool size, no callback of an earlier '
            'dispatch. asan flavour: seeded delay plans at the pool schedule points (random everywhere, hold workers between '
            '"counted" and the condition-variable wait, hold workers before clearing their flag, hold the caller around publish / '
            'notify, stagger worker starts) + lost-wake-up detector over the hook event log. tsan flavour: same histories, every '
            'ThreadSanitizer report is a violation. Termination: a case that makes no progress is killed by the watchdog and re-run; '
            'hanging twice is a violation. Non-trivial: >= 1 dispatch. distinct = distinct history hashes.',
    'floor': ['c11.dispatches', 'c11.dispatches_with_2+_blocks', 'c11.dispatches_with_overlapping_blocks',
              'c11.dispatches_range_shorter_than_pool', 'c11.pauses', 'c11.destroy_paused', 'c11.destroy_running',
              'c11.delay_plan.hold_worker_after_counted', 'hook.pausejob.counted', 'hook.resume.after_notify', 'delays_injected',
              'distinct_event_orders_max'],
    'assumptions': ['interleavings are sampled (delay injection + repetition), not enumerated',
                    'the memory-model clause rests on ThreadSanitizer\'s happens-before analysis of the executed accesses',
                    'lost wake-up is reported only when a worker counted itself paused before the last notification, was not woken '
                    'for > 8 s and the caller spun > 2e6 times'],
    'max_parallel': 4,
    'quick': lambda seed: runs('h_conc', ['raster_queen', 'trimesh'], 'asan', 2, 60, case_timeout=120)
                          + runs('h_conc', ['raster_queen'], 'tsan', 2, 30, ['--x-delays', '0'], case_timeout=300)
                          + runs('h_conc', ['profile_nc'], 'tsan', 1, 12, ['--x-delays', '1'], case_timeout=300),
    'thorough': lambda seed: runs('h_conc', CONC5, 'asan', 2, 600, case_timeout=300)
                             + runs('h_conc', CONC5, 'tsan', 1, 150, ['--x-delays', '0'], case_timeout=900)
                             + runs('h_conc', ['raster_queen', 'trimesh'], 'tsan', 1, 100, ['--x-delays', '1'], case_timeout=900),
}

PLAN['C10'] = {
    'rule': 'Per case: a random grid (cached raster, cache-less raster, cached / cache-less profile, triangular mesh; >= 24 nodes), '
            'a sequential reference graph on its own grid object and a graph whose single-direction router uses t in 2..16 threads '
            '(sequences: router only, pflood + router, router + spanning-tree resolver, router + snapshot + multiple router); 1-3 '
            'updates with changing fields / masks / base levels, each parallel update repeated; after each update a breadth-first '
            'upstream (order dependent) and an any-order C++ kernel applied with (n_threads in 2..16, min_block in {0,1,7,1e6}, '
            'min_level in {0,1,50,1e6}), so the pool is resumed / resized / paused between calls. Oracle: receivers, distances, '
            'weights, donors, dfs, bfs + levels, accumulate(1) and kernel outputs bit-identical to the sequential execution; every '
            'node visited exactly once by a kernel. asan flavour with seeded delay plans at the pool hooks; tsan flavour of the same '
            'workload (every report is a violation). distinct = distinct (grid, operators, inputs) hashes; evidence reports distinct '
            'hook event orders observed and the number of runs whose blocks overlapped in time.',
    'floor': ['c10.parallel_updates_compared', 'c10.parallel_kernels_compared', 'c10.updates_with_overlapping_blocks',
              'c10.kernels_with_overlapping_blocks', 'delays_injected', 'distinct_event_orders_max'],
    'assumptions': ['interleavings are sampled, not enumerated', 'ThreadSanitizer happens-before analysis for the race clause'],
    'max_parallel': 4,
    'quick': lambda seed: runs('h_conc', CONC5, 'asan', 1, 30, case_timeout=120)
                          + runs('h_conc', CONC5, 'tsan', 1, 8, ['--x-delays', '0', '--x-repeats', '1'], case_timeout=300),
    'thorough': lambda seed: runs('h_conc', CONC5, 'asan', 2, 400, case_timeout=300)
                             + runs('h_conc', CONC5, 'tsan', 1, 120, ['--x-delays', '0'], case_timeout=900),
}


# ------------------------------------------------------------------------------------------------ C08: every harness under ASan+UBSan (+ memcheck)
def c08_runs(scale, memcheck):
    out = []
    out += runs('h_grid', STRUCT, 'asan', 1, 10 ** 9, ['--x-random', str(20 * scale), '--x-enumdiv', str(max(1, 64 // scale))], prop='all')
    out += runs('h_grid', ['trimesh'], 'asan', 1, 150 * scale, prop='all')
    out += runs('h_flow', FLOW6, 'asan', 1, 500 * scale, prop='all')
    out += runs('h_hist', FLOW6, 'asan', 1, 60 * scale, prop='all')
    out += runs('h_erode', FLOW6, 'asan', 1, 500 * scale, prop='all')
    out += runs('h_conc', CONC5, 'asan', 1, 6 * scale, prop='all', case_timeout=300, group='conc')
    if memcheck:
        vg = ['valgrind', '-q', '--error-exitcode=99', '--exit-on-first-error=yes', '--track-origins=no']
        out += runs('h_grid', ['raster_queen', 'profile_nc'], 'plain', 1, 10 ** 9,
                    ['--x-random', '10', '--x-enumdiv', '512'], prop='all', wrapper=vg, case_timeout=900)
        # meshes are generated, not enumerated: the case count bounds the run
        out += runs('h_grid', ['trimesh'], 'plain', 1, 40, prop='all', wrapper=vg, case_timeout=900)
        out += runs('h_flow', FLOW6, 'plain', 1, 150, prop='all', wrapper=vg, case_timeout=900)
        out += runs('h_hist', ['raster_queen', 'trimesh'], 'plain', 1, 10, prop='all', wrapper=vg, case_timeout=1800)
        out += runs('h_erode', ['raster_queen', 'trimesh', 'profile'], 'plain', 1, 150, prop='all', wrapper=vg, case_timeout=900)
    return out


PLAN['C08'] = {
    'rule': 'Every harness of the other properties (h_grid, h_flow, h_hist, h_erode, h_conc; all their generators and operator '
            'sequences, all 9 grid configurations) executed with --prop all under g++ -fsanitize=address,undefined '
            '-fno-sanitize-recover=all -D_GLIBCXX_ASSERTIONS without -DNDEBUG (library asserts active), one process per shard, '
            'a sanitizer / assertion abort attributed to the running case and the process restarted behind it; explicit table-width '
            'invariants (receivers_count / donors_count within the table widths, indices < N) for intra-object overflow; thorough '
            'tier adds valgrind memcheck (--exit-on-first-error) on an uninstrumented build with a reduced case count. A case is '
            'non-trivial when it executed library code on an accepted configuration; distinct = distinct case hashes.',
    'floor': ['updates', 'c07.accessor_checks', 'c17.filtered_iterations', 'c18.nodes_checked', 'c15.trees_checked',
              'c09.updates_compared_with_fresh_graph', 'c16.graph_snapshots_compared', 'c20.executed', 'spl.steps', 'c14.steps',
              'c11.dispatches', 'c10.parallel_kernels_compared'],
    'assumptions': ['only executed paths are covered; red-zone tools miss intra-object overflows other than the table-width '
                    'invariants checked explicitly', 'XTENSOR_ENABLE_ASSERT is deliberately off (flat indexing of N-d containers '
                    'is in-bounds for the buffer)', 'no MemorySanitizer (uninstrumented libstdc++)'],
    'max_parallel': 16,
    'quick': lambda seed: c08_runs(1, False),
    'thorough': lambda seed: c08_runs(12, True),
}


# ------------------------------------------------------------------------------------------------ independent objects on two threads
# Every statement about "a grid", "a flow graph", "an eroder" speaks of that object and its inputs; what an independent object
# of the same type does on another thread at the same moment is not an input. h_conc drives two object families that share
# nothing (a) one after the other and (b) at the same time on two threads: (b) must reproduce (a) bit for bit (asan flavour), and
# ThreadSanitizer must see no access shared between the families (function-local statics, class statics, lazy initialisation).
def _indep(pid, kinds_q, kinds_t, floor_counter):
    q0, t0 = PLAN[pid]['quick'], PLAN[pid]['thorough']
    PLAN[pid]['quick'] = lambda seed: q0(seed) + runs('h_conc', kinds_q[:1], 'asan', 1, 16, prop=pid, case_timeout=300) \
                                               + runs('h_conc', kinds_q[-1:], 'tsan', 1, 14, ['--x-delays', '0'], prop=pid, case_timeout=300)
    PLAN[pid]['thorough'] = lambda seed: t0(seed) + runs('h_conc', kinds_t, 'asan', 1, 200, prop=pid, case_timeout=600) \
                                                  + runs('h_conc', kinds_t, 'tsan', 1, 80, ['--x-delays', '0'], prop=pid, case_timeout=900)
    PLAN[pid]['rule'] += (' Plus (h_conc, ASan and TSan flavours) two independent object families driven through the same steps one after '
                          'the other and at the same time on two threads: the concurrent results must equal the sequential ones bit for '
                          'bit, and ThreadSanitizer must report no access shared between the families.')
    PLAN[pid]['floor'] = list(PLAN[pid].get('floor', [])) + [floor_counter]


_indep('C07', ['raster_queen', 'trimesh'], ['raster_queen', 'raster_rook_nc', 'profile_nc', 'trimesh'], 'indep.kind.grid_queries')
_indep('C09', ['raster_queen', 'trimesh'], ['raster_queen', 'raster_rook_nc', 'profile', 'trimesh'], 'indep.kind.routes')
_indep('C12', ['trimesh', 'raster_queen'], ['raster_queen', 'profile', 'trimesh'], 'indep.kind.spl')
_indep('C13', ['raster_queen', 'profile'], ['raster_queen', 'profile', 'trimesh'], 'indep.kind.spl')
_indep('C14', ['raster_queen', 'raster_rook_nc'], ['raster_queen', 'raster_rook_nc'], 'indep.kind.adi')
# the routed state (filled elevation, tables, orders, accumulation, basin labels) of independent graphs: under each flow property
# that has no h_conc run of its own yet (C03, C04, C06 mix these cases into their h_conc workload)
_indep('C01', ['raster_queen', 'trimesh'], ['raster_queen', 'profile', 'trimesh'], 'indep.kind.routes')
_indep('C02', ['trimesh', 'raster_queen'], ['raster_queen', 'raster_rook_nc', 'trimesh'], 'indep.kind.routes')
_indep('C05', ['raster_queen', 'profile'], ['raster_queen', 'profile', 'trimesh'], 'indep.kind.routes')
_indep('C19', ['profile', 'raster_queen'], ['raster_queen', 'profile', 'trimesh'], 'indep.kind.routes')
# grids and meshes are built, not only queried, on the two threads
_indep('C17', ['raster_queen', 'trimesh'], ['raster_queen', 'profile_nc', 'trimesh'], 'indep.kind.grid_queries')
_indep('C18', ['trimesh', 'trimesh'], ['trimesh'], 'indep.kind.grid_queries')


# ------------------------------------------------------------------------------------------------ coverage-guided campaigns
# libFuzzer (clang 14, ASan+UBSan) mutates the decision stream of the h_flow generators: every byte string is a valid case
# (grid, operator sequence, field / mask / base-level classes, 1-3 updates) judged by the same oracles. A campaign stops at
# the first violation of its property (or sanitizer report), keeps the input as the replay and restarts behind it.
def _fuzz(pid, quick_runs, thorough_runs, kinds_q=('raster_queen', 'profile'), prop=None, harness='h_flow', kinds_t=None):
    q0, t0 = PLAN[pid]['quick'], PLAN[pid]['thorough']
    pr = prop or pid
    kt = list(kinds_t or FLOW6)
    if quick_runs:
        PLAN[pid]['quick'] = lambda seed: q0(seed) + runs(harness, list(kinds_q), 'fuzz', 1, quick_runs, prop=pr, case_timeout=120)
    PLAN[pid]['thorough'] = lambda seed: t0(seed) + runs(harness, kt, 'fuzz', 2, thorough_runs, prop=pr, case_timeout=300)
    PLAN[pid]['rule'] += (' Plus coverage-guided campaigns (libFuzzer over the decision stream of the generators, ASan+UBSan; see '
                          'coverage.fuzzing): the fuzzer steers the structural choices towards library code not yet executed.')


_fuzz('C06', 2500, 40000)
_fuzz('C08', 0, 40000, prop='all')
for _p in ('C01', 'C02', 'C03', 'C04', 'C05', 'C19', 'C15'):
    _fuzz(_p, 0, 25000)
_fuzz('C13', 2000, 25000, kinds_q=('raster_queen', 'trimesh'), harness='h_erode')
_fuzz('C12', 0, 25000, harness='h_erode')
_fuzz('C14', 0, 25000, harness='h_erode', kinds_t=RASTERS_FLOW if 'RASTERS_FLOW' in globals() else ['raster_rook', 'raster_queen', 'raster_bishop', 'raster_queen_nc'])
_fuzz('C09', 1000, 12000, kinds_q=('raster_queen', 'trimesh'), harness='h_hist')
_fuzz('C16', 0, 12000, harness='h_hist')


# ------------------------------------------------------------------------------------------------ optimised build
# The behavioural oracles also judge the code as users compile it (g++ -O2 -DNDEBUG, no sanitizer): assertions compiled out, other
# inlining and floating-point scheduling. Thorough tier only; same generators, one process per grid configuration.
def _release(pid, max_cases):
    t0 = PLAN[pid]['thorough']

    def thorough(seed):
        base = t0(seed)
        extra, seen = [], set()
        for r in base:
            if r['flavour'] != 'asan' or r['harness'] == 'h_conc' or r.get('wrapper'):
                continue
            key = (r['harness'], r['kind'])
            if key in seen:
                continue
            seen.add(key)
            r2 = dict(r)
            r2['flavour'] = 'release'
            r2['nshards'] = 1
            r2['cases'] = min(r['cases'], max_cases)
            extra.append(r2)
        return base + extra
    PLAN[pid]['thorough'] = thorough
    PLAN[pid]['rule'] += ' The thorough tier repeats a slice of the generated cases on an optimised build (g++ -O2 -DNDEBUG, no sanitizer).'


# (not for the enumerations of C07 / C17 / C20: their evidence counts every specification exactly once)
for _p in ('C01', 'C02', 'C03', 'C04', 'C05', 'C06', 'C15', 'C19', 'C09', 'C16', 'C12', 'C13', 'C14', 'C18'):
    _release(_p, 20000)
