#!/usr/bin/env python3
"""Reach measurement: which lines / branches of /repo/include/fastscapelib the harness workloads execute.

Not a verdict: runtime monitoring decides nothing about paths no workload drives, so this tool states which paths those
are. Every harness binary is built once more with `g++ -O0 --coverage` (no sanitizer), run with exactly the argument lists of
every process the registered checks of the tier start (same properties, seeds, shards, case counts), and the gcov counters of all binaries are merged per header line.

  lib/coverage.py [--tier quick|thorough] [--seed N] [--out coverage/SUMMARY.json] [--keep]

Output: per header: instantiated lines, executed lines, lines never executed (with source text), branch outcomes never
taken. Lines of templates that no harness instantiates do not appear at all (gcov sees instantiated code only); they are
listed separately by a textual scan for function bodies without any counter.
"""
import gzip, json, os, shutil, subprocess, sys, time
from concurrent.futures import ThreadPoolExecutor

sys.path.insert(0, os.path.dirname(os.path.abspath(__file__)))
import vdriver
import plan

VERIF = vdriver.VERIF
REPO = vdriver.REPO
INC = os.path.join(REPO, 'include')
COV_FLAGS = ['-std=c++17', '-O0', '--coverage', '-DFASTSCAPELIB_VERIF_HOOKS', '-pthread']

def sh(cmd, cwd=None, timeout=3600, env=None):
    p = subprocess.run(cmd, cwd=cwd, stdout=subprocess.PIPE, stderr=subprocess.STDOUT, text=True, timeout=timeout, env=env)
    return p.returncode, p.stdout


def workloads(tier, seed):
    """the argument lists of every (asan-flavour) process the registered checks of that tier start, per binary"""
    per_bin = {}
    for pid, spec in sorted(plan.PLAN.items()):
        for r in spec[tier](seed):
            if r['flavour'] != 'asan' or r.get('wrapper'):
                continue   # tsan / memcheck runs repeat the same workload
            for sh_ in range(r['nshards']):
                args = ['--prop', r.get('prop', pid), '--seed', str(seed), '--shard', str(sh_), '--nshards', str(r['nshards']),
                        '--cases', str(r['cases']), '--tier', tier] + list(r.get('extra') or [])
                per_bin.setdefault((r['harness'], r['kind']), []).append((pid, args))
    return per_bin


def one(job):
    h, k, root, runs_ = job
    d = os.path.join(root, '%s_%s' % (h, k))
    os.makedirs(d, exist_ok=True)
    obj = os.path.join(d, 'h.o')
    exe = os.path.join(d, 'h')
    src = os.path.join(VERIF, 'harness', h + '.cpp')
    rc, out = sh(['g++'] + COV_FLAGS + ['-D' + vdriver.KIND_DEFINE[k], '-I' + INC, '-I' + os.path.join(VERIF, 'harness'),
                                       '-c', src, '-o', obj])
    if rc != 0:
        return (h, k, None, 'compile failed: ' + out[-2000:])
    rc, out = sh(['g++', '--coverage', '-pthread', obj, '-o', exe])
    if rc != 0:
        return (h, k, None, 'link failed: ' + out[-2000:])
    nviol = 0
    nproc = 0
    for pid, args in runs_:
        try:
            rc, out = sh([exe] + args, cwd=d, timeout=7200)
        except subprocess.TimeoutExpired:
            return (h, k, None, 'run timed out: ' + ' '.join(args))
        if rc not in (0, 1):
            return (h, k, None, 'run exit %d (%s): %s' % (rc, ' '.join(args), out[-500:]))
        nproc += 1
        nviol += sum(1 for l in out.splitlines() if l.startswith('VIOL ') and 'mst-basic+' not in l)
    rc, out2 = sh(['gcov', '-j', '-b', '-t', obj], cwd=d)
    if rc != 0:
        return (h, k, None, 'gcov failed: ' + out2[-500:])
    try:
        data = json.loads(out2)
    except Exception as e:
        return (h, k, None, 'gcov output not parsed: %r' % (e,))
    files = {}
    for f in data['files']:
        fn = os.path.normpath(f['file'])
        if not fn.startswith(INC + '/'):
            continue
        rel = os.path.relpath(fn, INC)
        L = files.setdefault(rel, {})
        for ln in f['lines']:
            e = L.setdefault(ln['line_number'], [0, {}])
            e[0] += ln['count']
            for bi, b in enumerate(ln.get('branches', [])):
                if b.get('throw'):
                    continue   # exceptional edges of calls: not a decision of the library
                e[1][bi] = e[1].get(bi, 0) + b['count']
    return (h, k, files, '%d processes, violation lines other than the known finding: %d' % (nproc, nviol))


def main(argv):
    tier = 'quick'
    seed = 1
    outp = os.path.join(VERIF, 'coverage', 'SUMMARY.json')
    keep = False
    i = 0
    while i < len(argv):
        if argv[i] == '--tier':
            tier = argv[i + 1]; i += 2
        elif argv[i] == '--seed':
            seed = int(argv[i + 1]); i += 2
        elif argv[i] == '--out':
            outp = argv[i + 1]; i += 2
        elif argv[i] == '--keep':
            keep = True; i += 1
        else:
            sys.exit('unknown argument ' + argv[i])
    root = os.path.join(vdriver.BUILD, 'tmp', 'cov-%d' % os.getpid())
    shutil.rmtree(root, ignore_errors=True)
    os.makedirs(root)
    wl = workloads(tier, seed)
    jobs = [(h, k, root, wl[(h, k)]) for (h, k) in sorted(wl, key=lambda hk: -len(wl[hk]))]
    t0 = time.time()
    with ThreadPoolExecutor(max_workers=16) as ex:
        res = list(ex.map(one, jobs))
    merged = {}
    notes = []
    for h, k, files, note in res:
        notes.append('%s_%s: %s' % (h, k, note if files is not None else 'FAILED ' + note))
        if files is None:
            continue
        for rel, L in files.items():
            M = merged.setdefault(rel, {})
            for ln, (c, br) in L.items():
                e = M.setdefault(ln, [0, {}])
                e[0] += c
                for bi, bc in br.items():
                    e[1][bi] = e[1].get(bi, 0) + bc
    summary = {'tool': 'g++ -O0 --coverage + gcov -b, merged over %d harness binaries' % len(jobs),
               'repo_head': sh(['git', '-C', REPO, 'rev-parse', '--short', 'HEAD'])[1].strip(),
               'tier': tier, 'seed': seed, 'wall_s': None, 'runs': notes, 'files': {}, 'total': {}}
    tl = te = tb = tbe = 0
    for rel in sorted(merged):
        M = merged[rel]
        src = open(os.path.join(INC, rel)).read().splitlines()
        lines = sorted(M)
        execd = [l for l in lines if M[l][0] > 0]
        never = [l for l in lines if M[l][0] == 0]
        nb = sum(len(M[l][1]) for l in lines)
        nbe = sum(1 for l in lines for bc in M[l][1].values() if bc > 0)
        part = [l for l in execd if any(bc == 0 for bc in M[l][1].values())]
        summary['files'][rel] = {
            'lines_instantiated': len(lines), 'lines_executed': len(execd),
            'branch_outcomes': nb, 'branch_outcomes_taken': nbe,
            'lines_never_executed': [{'line': l, 'text': src[l - 1].strip()[:140]} for l in never],
            'lines_with_an_outcome_never_taken': [{'line': l, 'text': src[l - 1].strip()[:140]} for l in part],
        }
        tl += len(lines); te += len(execd); tb += nb; tbe += nbe
    summary['total'] = {'lines_instantiated': tl, 'lines_executed': te, 'branch_outcomes': tb, 'branch_outcomes_taken': tbe}
    summary['wall_s'] = round(time.time() - t0, 1)
    os.makedirs(os.path.dirname(outp), exist_ok=True)
    with open(outp, 'w') as fh:
        json.dump(summary, fh, indent=1)
    if not keep:
        shutil.rmtree(root, ignore_errors=True)
    print('[coverage] %d / %d instantiated library lines executed, %d / %d branch outcomes taken, %s s -> %s' %
          (te, tl, tbe, tb, summary['wall_s'], outp))
    for rel, f in summary['files'].items():
        print('   %-40s lines %4d/%4d  outcomes %4d/%4d' % (rel, f['lines_executed'], f['lines_instantiated'],
                                                         f['branch_outcomes_taken'], f['branch_outcomes']))
    failed = [n for n in notes if 'FAILED' in n]
    for n in failed:
        print('   ' + n)
    return 2 if failed else 0


if __name__ == '__main__':
    sys.exit(main(sys.argv[1:]))
