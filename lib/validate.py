#!/usr/bin/env python3
"""validate MANIFEST.json and evidence/*.json against the given schemas (run with python3-vt)."""
import json, sys, glob, os
import jsonschema
V = os.path.dirname(os.path.dirname(os.path.abspath(__file__)))
ok = True
def chk(path, schema):
    global ok
    try:
        jsonschema.validate(json.load(open(path)), json.load(open(schema)))
        print('valid  ', path)
    except Exception as e:
        ok = False
        print('INVALID', path, str(e)[:300])
chk(V + '/MANIFEST.json', '/root/.vp/MANIFEST.schema.json')
for f in sorted(glob.glob(V + '/evidence/*.json')):
    chk(f, '/root/.vp/EVIDENCE.schema.json')
sys.exit(0 if ok else 1)
