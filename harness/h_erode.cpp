// h_erode: C12 (SPL erosion non-negative, zero at outlets/lakes, never reverses a slope, rejects
//          n != 1 on multiple-direction graphs), C13 (SPL step solves the implicit equation),
//          C14 (diffusion step equals the Peaceman-Rachford ADI scheme; raster grids only).
// One grid type per binary (-DVG_<KIND>). See /verif/DESIGN.md section 5.
#include <algorithm>
#include <numeric>
#include <map>
#include <set>

#include "common/flowcommon.hpp"

#include "fastscapelib/eroders/spl.hpp"
#include "fastscapelib/eroders/diffusion_adi.hpp"

using namespace vf;

namespace
{
    struct Env
    {
        GridSpec g;
        RefGeom R;
        std::unique_ptr<grid_t> grid;
    };

    Env make_env(Rng& rng, std::size_t max_side)
    {
        Env e;
        GridGenOpts o;
        o.max_side = max_side;
        o.max_profile = std::min<std::size_t>(64, max_side * 6);
        e.g = gen_grid_spec(rng, o);
        e.R = ref_geom(e.g);
        e.grid = make_grid(e.g);
        return e;
    }

    using spl_t = fs::spl_eroder<graph_t>;

    fs::mst_method rnd_bm(Rng& rng)
    {
        return rng.chance(0.5) ? fs::mst_method::kruskal : fs::mst_method::boruvka;
    }
    fs::mst_route_method rnd_rm(Rng& rng)
    {
        return rng.chance(0.5) ? fs::mst_route_method::basic : fs::mst_route_method::carve;
    }

    // ------------------------------------------------------------------------------------ SPL (C12, C13)
    void spl_case(Runner& R, Rng& rng, std::size_t max_side)
    {
        Env env = make_env(rng, max_side);
        const std::size_t n = env.R.n;
        // graph: single / multi, resolved / unresolved
        std::vector<OpSpec> ops;
        double u = rng.u01();
        bool multi = false;
        if (u < 0.2)
            ops = { op_single() };
        else if (u < 0.35)
            ops = { op_pflood(), op_single() };
        else if (u < 0.6)
            ops = { op_single(), op_mst(rnd_bm(rng), rnd_rm(rng)) };
        else if (u < 0.75)
        {
            ops = { op_multi(rng.pick(std::vector<double>{ 0.0, 1.0, 1.1, 2.0 })) };
            multi = true;
        }
        else if (u < 0.9)
        {
            ops = { op_pflood(), op_multi(rng.pick(std::vector<double>{ 0.0, 1.0, 1.1, 2.0 })) };
            multi = true;
        }
        else
        {
            ops = { op_single(), op_mst(rnd_bm(rng), fs::mst_route_method::carve), op_multi(1.0) };
            multi = true;
        }
        // sometimes a graph snapshot of the final state (a read-only flow graph an eroder may be built on)
        const bool with_snapshot = rng.chance(0.25);
        if (with_snapshot)
            ops.push_back(op_snap("final", true, false));
        GraphBundle gb = build_graph(*env.grid, ops);
        graph_t& graph = *gb.graph;
        R.count(std::string("spl.graph.") + (multi ? "multi" : "single"));
        R.count(std::string("spl.graph.") + (ops.size() > 1 || ops[0].kind == OpKind::pflood ? "resolved" : "unresolved"));

        Hasher ch;
        env.g.hash_into(ch);
        for (auto& o : ops)
            o.hash_into(ch);

        // rejection of n != 1 on multiple-direction graphs (constructor and setter)
        if (R.want("C12"))
        {
            static const double ns[] = { 0.3, 0.5, 0.8, 0.999, 1.001, 1.5, 2.0, 1.0 };
            double nn = ns[rng.below(8)];
            bool threw = false;
            try
            {
                spl_t probe(graph, 1e-3, 0.5, nn, 1e-3);
                (void) probe;
            }
            catch (const std::exception&)
            {
                threw = true;
            }
            bool want_throw = multi && nn != 1.0;
            if (threw != want_throw)
                R.violation("C12", want_throw ? "nonlinear_exponent_accepted_on_multi_flow_graph/ctor" : "exponent_rejected",
                            JObj().raw("operators", ops_json(ops)).d("slope_exp", nn).s("detail", threw ? "constructor threw" : "constructor did not throw").str());
            R.count("c12.ctor_rejection_checks");
            if (want_throw)
                R.count("c12.rejections_expected");
            // setter
            spl_t probe2(graph, 1e-3, 0.5, 1.0, 1e-3);
            double n2 = ns[rng.below(8)];
            threw = false;
            try
            {
                probe2.set_slope_exp(n2);
            }
            catch (const std::exception&)
            {
                threw = true;
            }
            want_throw = multi && n2 != 1.0;
            if (threw != want_throw)
                R.violation("C12", want_throw ? "nonlinear_exponent_accepted_on_multi_flow_graph/setter" : "exponent_rejected",
                            JObj().raw("operators", ops_json(ops)).d("slope_exp", n2).s("detail", threw ? "set_slope_exp threw" : "set_slope_exp did not throw").str());
            if (want_throw)
                R.count("c12.rejections_expected");
            // a rejected request must stay rejected when it is repeated (every request is validated)
            if (want_throw && threw)
            {
                bool threw2 = false;
                try
                {
                    probe2.set_slope_exp(n2);
                }
                catch (const std::exception&)
                {
                    threw2 = true;
                }
                if (!threw2)
                    R.violation("C12", "nonlinear_exponent_accepted_on_multi_flow_graph/repeated_request",
                                JObj().raw("operators", ops_json(ops)).d("slope_exp", n2).s("detail", "the same rejected set_slope_exp request was accepted when repeated").str());
                // and asking for the linear case afterwards must work again
                try
                {
                    probe2.set_slope_exp(1.0);
                }
                catch (const std::exception&)
                {
                    R.violation("C12", "exponent_rejected", JObj().raw("operators", ops_json(ops)).d("slope_exp", 1.0).s("detail", "n = 1 rejected after a rejected request").str());
                }
                R.count("c12.repeated_rejections_checked");
            }
        }

        // the same rejection on a graph snapshot holding a multiple-direction state
        if (R.want("C12") && with_snapshot && multi)
        {
            graph_t& sg = graph.graph_snapshot("final");
            for (double nn : { 1.5, 0.6 })
            {
                bool threw = false;
                try
                {
                    spl_t probe(sg, 1e-3, 0.5, nn, 1e-3);
                    (void) probe;
                }
                catch (const std::exception&)
                {
                    threw = true;
                }
                if (!threw)
                    R.violation("C12", "nonlinear_exponent_accepted_on_multi_flow_graph/snapshot",
                                JObj().raw("operators", ops_json(ops)).d("slope_exp", nn).s("detail", "spl_eroder on a graph snapshot of a multiple-direction state accepted n != 1").str());
            }
            R.count("c12.snapshot_rejection_checks");
        }

        // eroder parameters
        double m_exp = rng.pick(std::vector<double>{ 0.3, 0.5, 0.5, 1.0, 1.0, 1.5, 2.0 });
        // exponents below / at / above one, including values closer to one than the Newton tolerance
        const std::vector<double> n_values{ 0.5, 0.8, 1.0, 1.0, 1.5, 2.0, 3.0, 4.0, 6.0, 0.9995, 1.0005, 0.99, 1.01, 0.99999, 1.00001 };
        double n_exp = multi ? 1.0 : rng.pick(n_values);
        double tol = rng.pick(std::vector<double>{ 1e-6, 1e-3, 1e-1 });
        bool k_array = rng.chance(0.5);
        auto gen_k = [&](std::vector<double>& kv)
        {
            kv.assign(n, 0.0);
            double kbase = rng.logu(1e-7, 1e-1);
            for (auto& v : kv)
                v = rng.chance(0.1) ? 0.0 : kbase * rng.logu(0.1, 10.0);
            return kbase;
        };
        std::vector<double> kv;
        double kscalar = gen_k(kv);
        std::unique_ptr<spl_t> eroder;
        if (k_array)
            eroder = std::make_unique<spl_t>(graph, to_arr(env.g, kv), m_exp, n_exp, tol);
        else
        {
            std::fill(kv.begin(), kv.end(), kscalar);
            eroder = std::make_unique<spl_t>(graph, kscalar, m_exp, n_exp, tol);
        }

        // parameter getters reflect what was set
        {
            const auto& kc = eroder->k_coef();
            bool okk = kc.size() == n;
            for (std::size_t i = 0; okk && i < n; ++i)
                okk = kc.flat(i) == kv[i];
            if (!okk || eroder->area_exp() != m_exp || eroder->slope_exp() != n_exp || eroder->tolerance() != tol)
                R.violation(R.want("C13") && !R.want("C12") ? "C13" : "C12", "parameter_getters",
                            JObj().raw("operators", ops_json(ops)).s("detail", "k_coef() / area_exp() / slope_exp() / tolerance() do not return the configured values").str());
        }
        const int nsteps = static_cast<int>(rng.range(1, 3));
        FlowInputs in;
        std::vector<double> prev_z;
        for (int s = 0; s < nsteps; ++s)
        {
            // elevation: new field, or the previous one eroded and perturbed (depressions appear)
            int cls;
            do
            {
                cls = static_cast<int>(rng.below(n_field_classes));
            } while (cls == 6 && n_exp != 1.0);  // 1e6..1e12 magnitudes: Newton tolerance below resolution
            if (s == 0)
            {
                in.field_cls = field_class_name(cls);
                in.z = gen_field_spec(rng, env.g, env.R, cls);
                in.mask = gen_mask(rng, env.g, env.R, in.mask_cls);
                in.custom_bl = gen_base_levels(rng, env.R, in.bl, in.bl_cls);
            }
            else if (rng.chance(0.5))
            {
                in.field_cls = field_class_name(cls);
                in.z = gen_field_spec(rng, env.g, env.R, cls);
            }
            else
            {
                in.field_cls = "previous_minus_erosion_plus_subsidence";
                in.z = prev_z;
                long k = rng.range(1, 1 + static_cast<long>(n / 10));
                for (long j = 0; j < k; ++j)
                {
                    std::size_t c = rng.below(n);
                    double d = rng.uniform(0.1, 2.0);
                    in.z[c] -= d;
                    for (auto& nb : env.R.adj[c])
                        if (rng.chance(0.5))
                            in.z[nb.idx] -= d * rng.u01();
                }
            }
            if (s > 0 && rng.chance(0.3))
            {
                auto mk = gen_mask(rng, env.g, env.R, in.mask_cls);
                if (mk.empty() && !in.mask.empty())
                    mk.assign(n, 0);
                in.mask = mk;
            }
            if (s > 0 && rng.chance(0.3))
            {
                // the set of base levels may change between two steps of one eroder as well (a node that was eroded before is an
                // outlet now, and the other way round)
                in.custom_bl = gen_base_levels(rng, env.R, in.bl, in.bl_cls) || in.custom_bl;
                R.count("spl.base_levels_changed_between_steps");
            }
            fix_domain(rng, env.R, in, true);
            hash_inputs(ch, in);
            apply_inputs(graph, env.g, in);
            arr_t zin = to_arr(env.g, in.z);
            const arr_t& hfilled = graph.update_routes(zin);
            std::vector<double> hf = flat_vec(hfilled);
            // parameter changes between steps on the same eroder object
            if (s > 0)
            {
                if (rng.chance(0.2))
                {
                    // eroders are values: a copy of a used eroder carries every parameter in force and shares nothing with the
                    // original (which is given other parameters and dropped); the oracles below judge the copy from here on
                    auto clone = std::make_unique<spl_t>(*eroder);
                    eroder->set_k_coef(rng.logu(1e-7, 1e-1));
                    eroder->set_area_exp(m_exp + 0.25);
                    eroder = std::move(clone);
                    R.count("spl.eroder_replaced_by_its_copy");
                }
                if (rng.chance(0.4))
                {
                    if (rng.chance(0.5))
                    {
                        kscalar = gen_k(kv);
                        eroder->set_k_coef(to_arr(env.g, kv));
                    }
                    else
                    {
                        kscalar = rng.logu(1e-7, 1e-1);
                        std::fill(kv.begin(), kv.end(), kscalar);
                        eroder->set_k_coef(kscalar);
                    }
                    R.count("spl.param_change.k");
                }
                if (rng.chance(0.15))
                {
                    // an erodibility array of another shape is refused; the coefficients in force stay what they were
                    // (the oracles below keep using kv; had the request been accepted, erode() would read it)
                    arr_t bad = arr_t::from_shape(mismatched_shape(env.g, rng));
                    bad.fill(rng.logu(1e-3, 1e3));
                    try
                    {
                        eroder->set_k_coef(bad);
                        R.count("spl.k_shape_mismatch_accepted");
                    }
                    catch (const std::runtime_error&)
                    {
                        R.count("spl.k_shape_mismatch_refused");
                    }
                }
                if (rng.chance(0.3))
                {
                    m_exp = rng.pick(std::vector<double>{ 0.3, 0.5, 1.0, 1.5, 2.0 });
                    eroder->set_area_exp(m_exp);
                }
                if (!multi && rng.chance(0.4))
                {
                    do
                    {
                        n_exp = rng.pick(n_values);
                    } while (n_exp != 1.0 && in.field_cls == std::string("large"));
                    eroder->set_slope_exp(n_exp);
                    R.count("spl.param_change.slope_exp");
                }
            }
            // elevation passed to the eroder: filled (as the tests do) or unfilled (lakes; documented usage)
            bool use_filled = rng.chance(0.5);
            const std::vector<double>& ze = use_filled ? hf : in.z;
            // drainage area
            std::vector<double> area;
            if (rng.chance(0.6))
                area = flat_vec(graph.accumulate(1.0));
            else
            {
                area.resize(n);
                for (auto& v : area)
                    v = rng.logu(1e-2, 1e6);
            }
            for (auto& v : area)
                if (!(v > 0))
                    v = 1e-300;  // isolated mesh nodes / masked nodes: keep A^m finite and positive
            double dt = rng.pick(std::vector<double>{ 0.0, 1e-3, 1.0, 1.0, 1e3, 1e3, 1e5, 1e8 });
            // keep the products K dt A^m / L^n finite (stated bound 1e250)
            {
                double amax = 0, lmin = 1e300, kmax = 0;
                for (auto v : area)
                    amax = std::max(amax, v);
                for (auto v : kv)
                    kmax = std::max(kmax, v);
                for (auto& a : env.R.adj)
                    for (auto& e : a)
                        lmin = std::min(lmin, e.dist);
                double lg = std::log10(std::max(kmax, 1e-300)) + std::log10(std::max(dt, 1e-300)) + m_exp * std::log10(amax)
                            - n_exp * std::log10(std::min(lmin, 1e300));
                if (lg > 250)
                    dt = 1.0;
            }
            GState S = extract(graph.impl());
            arr_t ze_arr = to_arr(env.g, ze);
            arr_t area_arr = to_arr(env.g, area);
            if (rng.chance(0.25) && write_nodata_under_mask(rng, in.mask, ze_arr) > 0)
            {
                R.count("spl.nodata_elevation_under_mask");
                if (rng.chance(0.5))
                    write_nodata_under_mask(rng, in.mask, area_arr);
            }
            arr_t zcopy = ze_arr;
            const arr_t& eout = eroder->erode(ze_arr, area_arr, dt);
            std::vector<double> e = flat_vec(eout);
            std::size_t ncorr = eroder->n_corr();
            std::vector<std::size_t> corrected(eroder->verif_corrected_nodes().begin(), eroder->verif_corrected_nodes().end());
            R.count("spl.steps");
            R.count(std::string("spl.elevation.") + (use_filled ? "filled" : "unfilled"));
            std::string nclass = n_exp < 1 ? "below_one" : (n_exp == 1 ? "one" : "above_one");
            R.count("spl.slope_exp." + nclass);
            if (n_exp != 1.0 && std::fabs(n_exp - 1.0) <= 0.01)
                R.count("spl.slope_exp.near_one");

            auto witness = [&](const std::string& detail)
            {
                return JObj()
                    .raw("grid", env.g.json(300))
                    .raw("operators", ops_json(ops))
                    .i("step", s)
                    .raw("inputs", inputs_json(in, 300))
                    .b("filled_elevation_passed", use_filled)
                    .raw("elevation_passed_hex", jarr(
                                                     ze, [](double x) { return jhex(x); }, 300))
                    .raw("drainage_area", jarr_num(area, 300))
                    .raw("k_coef", jarr_num(kv, 300))
                    .d("area_exp", m_exp)
                    .d("slope_exp", n_exp)
                    .d("tolerance", tol)
                    .d("dt", dt)
                    .raw("erosion", jarr_num(e, 300))
                    .s("detail", detail)
                    .str();
            };
            if (e.size() != n)
            {
                R.violation("C12", "erosion_shape", witness("size " + std::to_string(e.size())));
                return;
            }
            for (std::size_t i = 0; i < n; ++i)
                if (bits(ze_arr.flat(i)) != bits(zcopy.flat(i)))
                {
                    R.violation("C12", "input_elevation_modified", witness("node " + std::to_string(i)));
                    break;
                }
            double zscale = 0;
            for (auto v : ze)
                zscale = std::max(zscale, std::fabs(v));
            const double eps = 2.220446049250313e-16;
            const double rtol = 8 * eps * zscale + 1e-300;
            std::vector<char> is_corr(n, 0);
            for (auto c : corrected)
                if (c < n)
                    is_corr[c] = 1;
            // per node
            long checked13 = 0, eroded13 = 0;
            bool c12_fail = false, c13_fail = false;
            for (std::size_t i = 0; i < n; ++i)
            {
                if (!std::isfinite(e[i]))
                {
                    if (R.want("C12") && !c12_fail)
                        R.violation("C12", "erosion_not_finite", witness("node " + std::to_string(i)));
                    c12_fail = true;
                    continue;
                }
                if (S.self_only(i))
                {
                    if (e[i] != 0.0 && R.want("C12") && !c12_fail)
                    {
                        R.violation("C12", "erosion_at_outlet_pit_or_masked_node", witness("node " + std::to_string(i) + " erosion " + jnum(e[i])));
                        c12_fail = true;
                    }
                    continue;
                }
                // floor: lowest post-erosion elevation among the receivers
                double floor_i = 1e308;
                for (std::size_t k = 0; k < S.rec_count[i]; ++k)
                {
                    std::size_t r = S.r(i, k);
                    floor_i = std::min(floor_i, ze[r] - e[r]);
                }
                bool lake = ze[i] <= floor_i;
                if (R.want("C12") && !c12_fail)
                {
                    if (lake && e[i] != 0.0)
                    {
                        R.violation("C12", "erosion_in_lake", witness("node " + std::to_string(i) + " z=" + jnum(ze[i]) + " <= lowest receiver level " + jnum(floor_i) + " but erosion " + jnum(e[i])));
                        c12_fail = true;
                    }
                    else if (e[i] < -rtol)
                    {
                        R.violation("C12", "negative_erosion", witness("node " + std::to_string(i) + " erosion " + jnum(e[i])));
                        c12_fail = true;
                    }
                    else if (!lake && ze[i] - e[i] < floor_i - rtol)
                    {
                        R.violation("C12", "slope_reversed", witness("node " + std::to_string(i) + " new elevation " + jnum(ze[i] - e[i]) + " below lowest receiver " + jnum(floor_i)));
                        c12_fail = true;
                    }
                    else if (is_corr[i] && std::fabs((ze[i] - e[i]) - floor_i) > rtol)
                    {
                        R.violation("C12", "limited_node_not_on_floor", witness("node " + std::to_string(i)));
                        c12_fail = true;
                    }
                }
                // C13: a lake node has no lower receiver with a positive drop: the equation reduces to erosion = 0
                if (R.want("C13") && lake && !c13_fail)
                {
                    R.count("c13.lake_nodes_checked");
                    if (std::fabs(e[i]) > rtol)
                    {
                        R.violation("C13", "residual_exceeds_tolerance/lake_node",
                                    witness("node " + std::to_string(i) + " lies at or below its lowest receiver (no lower receiver) but erosion " + jnum(e[i])));
                        c13_fail = true;
                    }
                }
                // C13: residual of the implicit equation where erosion was not limited
                if (R.want("C13") && !lake && !is_corr[i] && !c13_fail)
                {
                    long double znew = static_cast<long double>(ze[i]) - static_cast<long double>(e[i]);
                    long double res = znew - static_cast<long double>(ze[i]);
                    long double scale = std::fabs(znew) + std::fabs(static_cast<long double>(ze[i]));
                    long double cond = 1.0L;
                    bool defined = true;
                    // interval form for exponents below one next to a zero drop (unbounded derivative there): the term is monotone in
                    // the drop, so with the drop known up to the rounding u the residual lies between the residuals at drop -/+ u
                    long double res_lo = res, res_hi = res;
                    bool near_zero_drop = false, finite_terms = true;
                    for (std::size_t k = 0; k < S.rec_count[i]; ++k)
                    {
                        std::size_t r = S.r(i, k);
                        if (ze[r] > ze[i])
                            continue;  // not a lower receiver
                        long double zr_new = static_cast<long double>(ze[r]) - static_cast<long double>(e[r]);
                        long double drop = znew - zr_new;
                        long double F = static_cast<long double>(dt) * static_cast<long double>(kv[i])
                                        * powl(static_cast<long double>(area[i]) * static_cast<long double>(S.rw(i, k)), static_cast<long double>(m_exp));
                        long double L = S.rd(i, k);
                        long double term;
                        if (n_exp == 1.0)
                        {
                            // linear case: the term is linear in the (signed) drop; on multiple-direction graphs a
                            // node may end below one of its (weakly weighted) lower receivers
                            term = F * drop / L;
                            if (drop < 0)
                                drop = 0;
                        }
                        else
                        {
                            if (drop < 0)
                                drop = 0;  // rounding put the node marginally below its receiver: slope is zero
                            term = F * powl(drop / L, static_cast<long double>(n_exp));
                        }
                        if (!std::isfinite(static_cast<double>(term)))
                        {
                            defined = false;
                            finite_terms = false;
                        }
                        res += term;
                        scale += std::fabs(term);
                        if (n_exp < 1.0)
                        {
                            const long double u = rtol, nn = static_cast<long double>(n_exp);
                            res_lo += F * powl(std::max(0.0L, drop - u) / L, nn);
                            res_hi += F * powl((drop + u) / L, nn);
                        }
                        // sensitivity of the term to the rounding u of the stored elevations: sup of
                        // d/d(drop) [F (drop/L)^n] over [drop - u, drop + u]
                        {
                            long double u = rtol;
                            long double nn = static_cast<long double>(n_exp);
                            if (n_exp >= 1.0)
                                cond += nn * F / powl(L, nn) * powl(drop + u, nn - 1.0L);
                            else if (drop > 2 * u)
                                cond += nn * F / powl(L, nn) * powl(drop - u, nn - 1.0L);
                            else
                            {
                                defined = false;  // unbounded sensitivity next to zero drop
                                near_zero_drop = true;
                            }
                        }
                    }
                    if (defined)
                    {
                        long double allowed = 1e-9L * scale + cond * rtol + (n_exp == 1.0 ? 0.0L : static_cast<long double>(tol));
                        ++checked13;
                        if (e[i] > 0)
                            ++eroded13;
                        if (std::fabs(res) > allowed)
                        {
                            R.violation("C13", "residual_exceeds_tolerance/n_" + nclass,
                                        witness("node " + std::to_string(i) + " residual " + jnum(static_cast<double>(res)) + " allowed " + jnum(static_cast<double>(allowed)) + " (tolerance " + jnum(tol) + ")"));
                            c13_fail = true;
                        }
                    }
                    else if (near_zero_drop && finite_terms && n_exp < 1.0)
                    {
                        const long double slack = 1e-9L * scale + 4.0L * rtol + static_cast<long double>(tol);
                        ++checked13;
                        R.count("c13.nodes_checked_in_interval_form");
                        if (res_lo > slack || res_hi < -slack)
                        {
                            R.violation("C13", "residual_exceeds_tolerance/n_" + nclass + "_at_zero_drop",
                                        witness("node " + std::to_string(i) + " was not reported as limited, its new elevation lies on its receiver's, and the residual is in ["
                                                + jnum(static_cast<double>(res_lo)) + ", " + jnum(static_cast<double>(res_hi)) + "] whatever the rounding of the drop (slack " + jnum(static_cast<double>(slack)) + ")"));
                            c13_fail = true;
                        }
                    }
                    else
                        R.count("c13.nodes_skipped_ill_defined");
                }
            }
            if (R.want("C12"))
            {
                if (ncorr != corrected.size())
                    R.violation("C12", "n_corr_mismatch", witness("n_corr()=" + std::to_string(ncorr) + " recorded limited nodes " + std::to_string(corrected.size())));
                R.count("c12.nodes_checked", static_cast<long>(n));
                R.count("c12.limited_nodes", static_cast<long>(corrected.size()));
                bool any = false;
                for (std::size_t i = 0; i < n; ++i)
                    any = any || e[i] > 0;
                if (any)
                    R.nontrivial(true);
                long lakes = 0;
                for (std::size_t i = 0; i < n; ++i)
                    if (!S.self_only(i))
                    {
                        double fl = 1e308;
                        for (std::size_t k = 0; k < S.rec_count[i]; ++k)
                            fl = std::min(fl, ze[S.r(i, k)] - e[S.r(i, k)]);
                        if (ze[i] <= fl)
                            ++lakes;
                    }
                R.count("c12.lake_nodes", lakes);
            }
            if (R.want("C13"))
            {
                R.count("c13.nodes_checked", checked13);
                R.count("c13.nodes_checked.n_" + nclass, checked13);
                R.count("c13.eroded_nodes_checked", eroded13);
                if (eroded13 > 0)
                    R.nontrivial(true);
            }
            if (R.want_sample())
                R.sample(JObj().raw("grid", env.g.json(30)).raw("operators", ops_json(ops)).d("area_exp", m_exp).d("slope_exp", n_exp).d("dt", dt).d("tolerance", tol).b("k_array", k_array).s("field", in.field_cls).str());
            prev_z = ze;
            for (std::size_t i = 0; i < n; ++i)
                if (std::isfinite(e[i]))
                    prev_z[i] -= e[i];
        }
        R.set_case_hash(ch.h);
    }

    // ------------------------------------------------------------------------------------ diffusion (C14)
    using ld = long double;

    // dense solve with partial pivoting (long double)
    std::vector<ld> dense_solve(std::vector<std::vector<ld>> A, std::vector<ld> b)
    {
        const std::size_t n = b.size();
        for (std::size_t c = 0; c < n; ++c)
        {
            std::size_t piv = c;
            for (std::size_t r = c + 1; r < n; ++r)
                if (std::fabs(A[r][c]) > std::fabs(A[piv][c]))
                    piv = r;
            std::swap(A[c], A[piv]);
            std::swap(b[c], b[piv]);
            for (std::size_t r = c + 1; r < n; ++r)
            {
                ld f = A[r][c] / A[c][c];
                if (f == 0)
                    continue;
                for (std::size_t k = c; k < n; ++k)
                    A[r][k] -= f * A[c][k];
                b[r] -= f * b[c];
            }
        }
        std::vector<ld> x(n);
        for (std::size_t i = n; i-- > 0;)
        {
            ld s = b[i];
            for (std::size_t k = i + 1; k < n; ++k)
                s -= A[i][k] * x[k];
            x[i] = s / A[i][i];
        }
        return x;
    }

    // reference Peaceman-Rachford step with face-averaged diffusivity, fixed-value borders:
    // half step 1 implicit along columns (x), explicit along rows (y); half step 2 the other way round
    std::vector<ld> adi_reference(std::size_t nr, std::size_t nc, double dy, double dx, const std::vector<double>& k,
                                  const std::vector<double>& h, double dt)
    {
        auto K = [&](std::size_t r, std::size_t c) -> ld { return k[r * nc + c]; };
        auto H = [&](const std::vector<ld>& a, std::size_t r, std::size_t c) -> ld { return a[r * nc + c]; };
        std::vector<ld> h0(h.begin(), h.end());
        // half-step coefficients: (dt/2) * face diffusivity / spacing^2
        auto ay = [&](std::size_t r, std::size_t c, int side) -> ld  // side -1: face between r-1 and r, +1: r and r+1
        { return static_cast<ld>(dt) * 0.5L * (K(r, c) + K(side < 0 ? r - 1 : r + 1, c)) / 2.0L / (static_cast<ld>(dy) * dy); };
        auto ax = [&](std::size_t r, std::size_t c, int side) -> ld
        { return static_cast<ld>(dt) * 0.5L * (K(r, c) + K(r, side < 0 ? c - 1 : c + 1)) / 2.0L / (static_cast<ld>(dx) * dx); };
        std::vector<ld> h1 = h0;
        for (std::size_t r = 1; r + 1 < nr; ++r)
        {
            std::vector<std::vector<ld>> A(nc, std::vector<ld>(nc, 0.0L));
            std::vector<ld> b(nc, 0.0L);
            A[0][0] = 1;
            b[0] = H(h0, r, 0);
            A[nc - 1][nc - 1] = 1;
            b[nc - 1] = H(h0, r, nc - 1);
            for (std::size_t c = 1; c + 1 < nc; ++c)
            {
                A[c][c - 1] = -ax(r, c, -1);
                A[c][c + 1] = -ax(r, c, +1);
                A[c][c] = 1 + ax(r, c, -1) + ax(r, c, +1);
                b[c] = H(h0, r, c) + ay(r, c, -1) * (H(h0, r - 1, c) - H(h0, r, c)) + ay(r, c, +1) * (H(h0, r + 1, c) - H(h0, r, c));
            }
            auto x = dense_solve(A, b);
            for (std::size_t c = 0; c < nc; ++c)
                h1[r * nc + c] = x[c];
        }
        std::vector<ld> h2 = h1;
        for (std::size_t c = 1; c + 1 < nc; ++c)
        {
            std::vector<std::vector<ld>> A(nr, std::vector<ld>(nr, 0.0L));
            std::vector<ld> b(nr, 0.0L);
            A[0][0] = 1;
            b[0] = H(h1, 0, c);
            A[nr - 1][nr - 1] = 1;
            b[nr - 1] = H(h1, nr - 1, c);
            for (std::size_t r = 1; r + 1 < nr; ++r)
            {
                A[r][r - 1] = -ay(r, c, -1);
                A[r][r + 1] = -ay(r, c, +1);
                A[r][r] = 1 + ay(r, c, -1) + ay(r, c, +1);
                b[r] = H(h1, r, c) + ax(r, c, -1) * (H(h1, r, c - 1) - H(h1, r, c)) + ax(r, c, +1) * (H(h1, r, c + 1) - H(h1, r, c));
            }
            auto x = dense_solve(A, b);
            for (std::size_t r = 0; r < nr; ++r)
                h2[r * nc + c] = x[r];
        }
        return h2;
    }

    template <class G>
    void adi_case_t(Runner& R, Rng& rng, std::size_t max_side)
    {
        using adi_t = fs::diffusion_adi_eroder<G>;
        GridSpec g;
        long mx = static_cast<long>(std::max<std::size_t>(max_side, 4));
        g.rows = static_cast<std::size_t>(rng.range(3, mx));
        g.cols = static_cast<std::size_t>(rng.range(3, mx));
        if (rng.chance(0.5))
            g.dy = g.dx = rng.pick(std::vector<double>{ 1.0, 100.0, 0.25 });
        else
        {
            g.dy = rng.logu(0.05, 500.0);
            g.dx = rng.logu(0.05, 500.0);
        }
        auto rnd_borders = [&]()
        {
            NS l = rand_border(rng, true), r = rand_border(rng, true), t = rand_border(rng, true), b = rand_border(rng, true);
            if (l == NS::looped || r == NS::looped)
                l = r = NS::looped;
            if (t == NS::looped || b == NS::looped)
                t = b = NS::looped;
            return std::array<NS, 4>{ { l, r, t, b } };
        };
        g.border = rnd_borders();
        RefGeom ref = ref_geom(g);
        auto grid = make_grid_t<G>(g);
        const std::size_t n = g.rows * g.cols;
        Hasher ch;
        g.hash_into(ch);

        auto gen_k = [&](std::vector<double>& kv, bool& is_scalar, double& ks, std::string& kcls)
        {
            kv.assign(n, 0.0);
            double u = rng.u01();
            ks = rng.chance(0.06) ? 0.0 : rng.logu(1e-10, 1e3);  // zero diffusivity: nothing moves
            is_scalar = false;
            if (u < 0.3)
            {
                is_scalar = true;
                kcls = "scalar";
                std::fill(kv.begin(), kv.end(), ks);
            }
            else if (u < 0.45)
            {
                kcls = "uniform_array";
                std::fill(kv.begin(), kv.end(), ks);
            }
            else if (u < 0.65)
            {
                kcls = "array_small_relative_variation";
                double rel = rng.logu(1e-8, 1e-2);
                for (auto& v : kv)
                    v = ks * (1.0 + rel * rng.uniform(-1, 1));
            }
            else
            {
                kcls = "array_large_variation";
                for (auto& v : kv)
                    v = ks * rng.logu(0.05, 20.0);
            }
        };
        std::vector<double> kv;
        bool kscalar;
        double ks;
        std::string kcls;
        gen_k(kv, kscalar, ks, kcls);
        std::unique_ptr<adi_t> er;
        auto karr = [&](const std::vector<double>& v)
        {
            xt::xarray<double> a = xt::xarray<double>::from_shape({ g.rows, g.cols });
            for (std::size_t i = 0; i < n; ++i)
                a.flat(i) = v[i];
            return a;
        };
        // a spatially variable K may be given in single precision (any xtensor expression is accepted): the values
        // are then exactly representable floats and the scheme must be that of the same values in double
        auto karr_f = [&](std::vector<double>& v)
        {
            xt::xtensor<float, 2> a = xt::xtensor<float, 2>::from_shape({ g.rows, g.cols });
            for (std::size_t i = 0; i < n; ++i)
            {
                a.flat(i) = static_cast<float>(v[i]);
                v[i] = static_cast<double>(a.flat(i));
            }
            return a;
        };
        bool k_float = !kscalar && rng.chance(0.25);
        if (kscalar)
            er = std::make_unique<adi_t>(*grid, ks);
        else if (k_float)
        {
            er = std::make_unique<adi_t>(*grid, karr_f(kv));
            ks = kv[0];  // (uniform array: the scalar to compare with is the rounded value)
            R.count("c14.k_given_as_float_array");
        }
        else
            er = std::make_unique<adi_t>(*grid, karr(kv));

        const int nsteps = static_cast<int>(rng.range(1, 4));
        double dt = rng.pick(std::vector<double>{ 1e-3, 1.0, 1e3, 1e8 });  // (a zero time step only after a regular one, below)
        for (int s = 0; s < nsteps; ++s)
        {
            if (s > 0)
            {
                if (rng.chance(0.2))
                {
                    // eroders are values (see the stream-power cases): the copy goes on, the original is changed and dropped
                    auto clone = std::make_unique<adi_t>(*er);
                    er->set_k_coef(rng.logu(1e-6, 1e3));
                    er = std::move(clone);
                    R.count("c14.eroder_replaced_by_its_copy");
                }
                if (rng.chance(0.6))
                {
                    gen_k(kv, kscalar, ks, kcls);
                    k_float = !kscalar && rng.chance(0.25);
                    if (kscalar)
                        er->set_k_coef(ks);
                    else if (k_float)
                    {
                        er->set_k_coef(karr_f(kv));
                        ks = kv[0];
                        R.count("c14.k_given_as_float_array");
                    }
                    else
                        er->set_k_coef(karr(kv));
                    R.count("c14.k_changed_on_same_eroder");
                }
                if (rng.chance(0.15))
                {
                    // a diffusivity array of another shape is refused and leaves the eroder as it was
                    std::array<std::size_t, 2> bsh{ g.rows, g.cols };
                    if (g.rows != g.cols && rng.chance(0.4))
                        std::swap(bsh[0], bsh[1]);  // same number of elements, other shape
                    else
                        bsh[rng.below(2)] += 1;
                    xt::xtensor<double, 2> bad = xt::xtensor<double, 2>::from_shape(bsh);
                    bad.fill(rng.logu(1e-3, 1e3));
                    const bool same = false;
                    if (!same)
                    {
                        try
                        {
                            er->set_k_coef(bad);
                            R.count("c14.k_shape_mismatch_accepted");
                        }
                        catch (const std::runtime_error&)
                        {
                            R.count("c14.k_shape_mismatch_refused");
                        }
                    }
                }
                if (rng.chance(0.4))
                    dt = rng.pick(std::vector<double>{ 0.0, 1e-3, 1.0, 1e3, 1e8 });
                else
                    R.count("c14.same_dt_as_previous_step");
            }
            // keep dt*f finite and the system well scaled: f = k/(2 d^2)
            double kmax = 0;
            for (auto v : kv)
                kmax = std::max(kmax, v);
            double fmax = kmax * 0.5 / std::min(g.dx * g.dx, g.dy * g.dy);
            double stiff = dt * fmax;
            R.count(stiff > 1e3 ? "c14.stiff_steps" : "c14.moderate_steps");
            {
                // k_coef() returns the diffusivity in force (scalar broadcast to the grid shape)
                auto kc = er->k_coef();
                bool okk = kc.size() == n;
                for (std::size_t i = 0; okk && i < n; ++i)
                    okk = kc.flat(i) == kv[i];
                if (!okk)
                    R.violation("C14", "k_coef_getter", JObj().raw("grid", g.json(10)).s("k_class", kcls).s("detail", "k_coef() does not return the configured diffusivity").str());
            }
            int cls = static_cast<int>(rng.below(n_field_classes));
            std::vector<double> z = gen_field_spec(rng, g, ref, cls);
            ch.vec(z);
            ch.vec(kv);
            ch.pod(dt);
            xt::xarray<double> zin = karr(z);
            const auto& eout = er->erode(zin, dt);
            std::vector<double> e(n);
            for (std::size_t i = 0; i < n; ++i)
                e[i] = eout.flat(i);
            R.count("c14.steps");
            R.count("c14.k." + kcls);
            double zscale = 0;
            for (auto v : z)
                zscale = std::max(zscale, std::fabs(v));
            auto witness = [&](const std::string& detail)
            {
                return JObj()
                    .raw("grid", g.json(100))
                    .i("step", s)
                    .s("k_class", kcls)
                    .raw("k", jarr_num(kv, 400))
                    .d("dt", dt)
                    .raw("elevation_hex", jarr(
                                              z, [](double x) { return jhex(x); }, 400))
                    .raw("erosion", jarr_num(e, 400))
                    .s("detail", detail)
                    .str();
            };
            // borders: zero erosion exactly
            bool ok = true;
            for (std::size_t r = 0; r < g.rows && ok; ++r)
                for (std::size_t c = 0; c < g.cols && ok; ++c)
                    if ((r == 0 || c == 0 || r == g.rows - 1 || c == g.cols - 1) && e[r * g.cols + c] != 0.0)
                    {
                        R.violation("C14", "erosion_on_border", witness("node (" + std::to_string(r) + "," + std::to_string(c) + ") erosion " + jnum(e[r * g.cols + c])));
                        ok = false;
                    }
            // interior: equals the directly solved scheme
            auto want = adi_reference(g.rows, g.cols, g.dy, g.dx, kv, z, dt);
            // rounding of the explicit part of each half step is amplified by (1 + 4 dt f): that is the
            // accuracy "solving the two systems directly" can have in double precision
            const ld tol = 16.0L * 2.220446049250313e-16L * (1.0L + 4.0L * static_cast<ld>(stiff)) * static_cast<ld>(zscale)
                               * static_cast<ld>(std::max(g.rows, g.cols))
                           + 1e-300L;
            ld worst = 0;
            for (std::size_t i = 0; i < n && ok; ++i)
            {
                ld got_new = static_cast<ld>(z[i]) - static_cast<ld>(e[i]);
                ld err = std::fabs(got_new - want[i]);
                worst = std::max(worst, err);
                if (!(err <= tol))
                {
                    R.violation("C14", "differs_from_adi_scheme", witness("node " + std::to_string(i) + " new elevation " + jnum(static_cast<double>(got_new)) + " scheme " + jnum(static_cast<double>(want[i])) + " tolerance " + jnum(static_cast<double>(tol))));
                    ok = false;
                }
            }
            if (zscale > 0)
                R.maxc("c14.worst_error_permille_of_tolerance_max", static_cast<long>(1000.0 * static_cast<double>(worst / tol)));
            R.count("c14.interior_nodes_compared", static_cast<long>((g.rows - 2) * (g.cols - 2)));
            // independence from node statuses: another grid object with other border statuses, bit-identical
            if (ok && rng.chance(0.5))
            {
                GridSpec g2 = g;
                g2.border = rnd_borders();
                auto grid2 = make_grid_t<G>(g2);
                std::unique_ptr<adi_t> er2;
                if (kscalar)
                    er2 = std::make_unique<adi_t>(*grid2, ks);
                else
                    er2 = std::make_unique<adi_t>(*grid2, karr(kv));
                const auto& e2 = er2->erode(zin, dt);
                for (std::size_t i = 0; i < n; ++i)
                    if (bits(e2.flat(i)) != bits(e[i]))
                    {
                        R.violation("C14", "depends_on_node_status_or_history", witness("fresh eroder on a grid with other border statuses differs at node " + std::to_string(i) + ": " + jnum(e2.flat(i)) + " vs " + jnum(e[i])));
                        ok = false;
                        break;
                    }
                R.count("c14.status_independence_checks");
            }
            // scalar vs uniform array
            if (ok && (kcls == "scalar" || kcls == "uniform_array") && rng.chance(0.7))
            {
                std::unique_ptr<adi_t> er3;
                if (kscalar)
                    er3 = std::make_unique<adi_t>(*grid, karr(kv));
                else
                    er3 = std::make_unique<adi_t>(*grid, ks);
                const auto& e3 = er3->erode(zin, dt);
                for (std::size_t i = 0; i < n; ++i)
                    if (std::fabs(static_cast<ld>(e3.flat(i)) - static_cast<ld>(e[i])) > tol)
                    {
                        R.violation("C14", "scalar_and_uniform_array_differ", witness("node " + std::to_string(i) + ": " + jnum(e3.flat(i)) + " vs " + jnum(e[i])));
                        ok = false;
                        break;
                    }
                R.count("c14.scalar_vs_uniform_array_checks");
            }
            // linearity
            if (ok && rng.chance(0.4))
            {
                std::vector<double> z2 = gen_field_spec(rng, g, ref, static_cast<int>(rng.below(n_field_classes)));
                double a = rng.uniform(-2, 2), b = rng.uniform(-2, 2);
                std::vector<double> zc(n);
                for (std::size_t i = 0; i < n; ++i)
                    zc[i] = a * z[i] + b * z2[i];
                std::vector<double> e2(n), ec(n);
                {
                    const auto& t = er->erode(karr(z2), dt);
                    for (std::size_t i = 0; i < n; ++i)
                        e2[i] = t.flat(i);
                }
                {
                    const auto& t = er->erode(karr(zc), dt);
                    for (std::size_t i = 0; i < n; ++i)
                        ec[i] = t.flat(i);
                }
                double sc = 0;
                for (std::size_t i = 0; i < n; ++i)
                    sc = std::max({ sc, std::fabs(a * z[i]), std::fabs(b * z2[i]) });
                ld ltol = 64.0L * 2.220446049250313e-16L * (1.0L + 4.0L * static_cast<ld>(stiff)) * static_cast<ld>(sc)
                              * static_cast<ld>(std::max(g.rows, g.cols))
                          + 1e-300L;
                for (std::size_t i = 0; i < n; ++i)
                {
                    ld lin = static_cast<ld>(a) * e[i] + static_cast<ld>(b) * e2[i];
                    if (std::fabs(static_cast<ld>(ec[i]) - lin) > ltol)
                    {
                        R.violation("C14", "not_linear", witness("node " + std::to_string(i) + " erode(a z1 + b z2)=" + jnum(ec[i]) + " a erode(z1) + b erode(z2)=" + jnum(static_cast<double>(lin))));
                        break;
                    }
                }
                R.count("c14.linearity_checks");
            }
            if (ok && rng.chance(0.2))
            {
                // the array a step returns is itself a field on the grid: handing that very array (not a copy) to the next step of the
                // same eroder must give what a second eroder gives for a copy of it
                const auto& first = er->erode(zin, dt);
                xt::xarray<double> copy_of_first = first;
                std::unique_ptr<adi_t> er5;
                if (kscalar)
                    er5 = std::make_unique<adi_t>(*grid, ks);
                else
                    er5 = std::make_unique<adi_t>(*grid, karr(kv));
                std::vector<double> want_alias = flat_vec(er5->erode(copy_of_first, dt));
                const auto& again = er->erode(first, dt);
                for (std::size_t i = 0; i < n; ++i)
                    if (bits(again.flat(i)) != bits(want_alias[i]))
                    {
                        R.violation("C14", "result_array_as_next_input", witness("erode(erode(z)) with the returned array handed straight back differs at node " + std::to_string(i) + " from a second eroder given a copy: "
                                                                                 + jnum(again.flat(i)) + " vs " + jnum(want_alias[i])));
                        break;
                    }
                R.count("c14.result_array_reused_as_input");
            }
            bool nt = false;
            for (std::size_t i = 0; i < n; ++i)
                nt = nt || e[i] != 0.0;
            R.nontrivial(nt);
            if (R.want_sample())
                R.sample(JObj().raw("grid", g.json(10)).s("k_class", kcls).d("k", ks).d("dt", dt).s("field", field_class_name(cls)).str());
        }
        R.set_case_hash(ch.h);
    }

    void adi_case(Runner& R, Rng& rng, std::size_t max_side)
    {
        if constexpr (family == Family::raster)
            adi_case_t<grid_t>(R, rng, max_side);
        else
        {
            (void) R;
            (void) rng;
            (void) max_side;
        }
    }
}

#ifdef VF_FUZZ
extern "C" int
LLVMFuzzerTestOneInput(const std::uint8_t* data, std::size_t size)
{
    return fuzz_one("h_erode", grid_name, "C13", data, size,
                    [](Runner& R, Rng& rng, const std::string& prop)
                    {
                        if (prop == "C14" || (prop == "all" && family == Family::raster && rng.chance(0.3)))
                            adi_case(R, rng, 9);
                        else
                            spl_case(R, rng, 8);
                    });
}
#else
int
main(int argc, char** argv)
{
    Args a = parse_args(argc, argv);
    Runner R(a, "h_erode", grid_name);
    const bool thorough = a.tier == "thorough";
    std::size_t max_side = a.maxn ? static_cast<std::size_t>(a.maxn) : (thorough ? 24 : 10);
    const std::string prop = a.prop;
    if (prop == "C14" && family != Family::raster)
    {
        R.finish();
        return 0;
    }
    return run_cases(R,
                     "erode:" + prop,
                     [&](Runner& R_, Rng& rng, long k)
                     {
                         if (prop == "C14" || (prop == "all" && family == Family::raster && k % 3 == 2))
                             adi_case(R_, rng, thorough ? 20 : 12);
                         else
                             spl_case(R_, rng, max_side);
                     });
}
#endif
