// h_conc: C11 (worker pool: exactly once, disjoint contiguous blocks, completion before return,
//         termination of run / pause / resume / resize / destroy histories, no data race) and
//         C10 (multi-threaded router and kernels equal the sequential results).
// Built in two flavours: asan (delay injection through the pool hooks, equality / exactly-once /
// deadlock monitors) and tsan (same workload, ThreadSanitizer decides the memory-model clause).
// One grid type per binary (-DVG_<KIND>). See /verif/DESIGN.md section 5.
#include <algorithm>
#include <numeric>
#include <map>
#include <set>
#include <thread>
#include <chrono>
#include <unistd.h>

#include "common/flowcommon.hpp"

#include "fastscapelib/eroders/spl.hpp"
#include "fastscapelib/eroders/diffusion_adi.hpp"

#ifndef FASTSCAPELIB_VERIF_HOOKS
#error "h_conc needs the pool hooks (-DFASTSCAPELIB_VERIF_HOOKS)"
#endif

using namespace vf;

namespace
{
    // ------------------------------------------------------------------------------------ hook monitor
    enum Pt : int
    {
        P_before_publish,
        P_after_publish,
        P_saw_job,
        P_before_clear,
        P_after_clear,
        P_wait_spin,
        P_pause_spin,
        P_pj_locked,
        P_pj_counted,
        P_pj_woken,
        P_resume_before,
        P_resume_after,
        P_stop_before,
        P_stop_after,
        P_resize_begin,
        P_resize_end,
        P_rb_begin,
        P_rb_end,
        P_unknown,
        P_N
    };
    const char* const pt_names[P_N] = { "run_tasks.before_publish", "run_tasks.after_publish", "worker.saw_job",
                                        "worker.job_done.before_clear", "worker.job_done.after_clear", "wait.spin",
                                        "pause.spin", "pausejob.locked", "pausejob.counted", "pausejob.woken",
                                        "resume.before_notify", "resume.after_notify", "stop.before_join", "stop.after_join",
                                        "resize.begin", "resize.end", "run_blocks.begin", "run_blocks.end", "?" };

    constexpr std::size_t EV_CAP = 1u << 18;
    constexpr std::size_t MAXW = 64;

    struct Monitor
    {
        std::atomic<std::uint64_t> seq{ 1 };
        std::atomic<std::uint32_t> ev[EV_CAP];
        std::atomic<int> delay_max_us[P_N];
        std::atomic<int> delay_permille[P_N];
        std::atomic<std::uint64_t> delay_seed{ 1 };
        std::atomic<long> counts[P_N];
        std::atomic<long> delays_injected{ 0 };
        // deadlock detector (lost wake-up)
        std::atomic<std::uint64_t> counted_seq[MAXW];
        std::atomic<std::uint64_t> woken_seq[MAXW];
        std::atomic<std::uint64_t> notify_seq{ 0 };
        std::atomic<std::int64_t> notify_time_ns{ 0 };
        std::atomic<std::uint64_t> spins_since_notify{ 0 };
        std::atomic<bool> deadlock_reported{ false };
        std::atomic<long> deadlock_limit_ms{ 8000 };
    } M;

    Runner* g_runner = nullptr;
    std::string g_case_desc;

    std::int64_t now_ns()
    {
        return std::chrono::duration_cast<std::chrono::nanoseconds>(std::chrono::steady_clock::now().time_since_epoch()).count();
    }

    int point_id(const char* p)
    {
        // the literals live in the library headers: cache by address
        thread_local const char* cache_p[P_N] = {};
        thread_local int cache_id[P_N] = {};
        thread_local int ncache = 0;
        for (int i = 0; i < ncache; ++i)
            if (cache_p[i] == p)
                return cache_id[i];
        int id = P_unknown;
        for (int i = 0; i < P_N; ++i)
            if (std::strcmp(p, pt_names[i]) == 0)
            {
                id = i;
                break;
            }
        if (ncache < P_N)
        {
            cache_p[ncache] = p;
            cache_id[ncache] = id;
            ++ncache;
        }
        return id;
    }

    [[noreturn]] void report_deadlock(std::size_t worker, std::uint64_t spins, long ms)
    {
        // the caller thread is stuck in wait(): a worker counted itself paused before the last
        // notification and has not been woken since -> the wake-up was lost, nothing will ever wake it
        Runner& R = *g_runner;
        R.violation("C11", "lost_wakeup",
                    JObj()
                        .s("history", g_case_desc)
                        .i("worker", worker)
                        .i("caller_spins_since_notify", spins)
                        .i("ms_since_notify", ms)
                        .s("detail", "worker passed pausejob.counted before resume.after_notify, never reached pausejob.woken; resume()/wait() spins forever")
                        .str());
        long next = R.current() + 1;
        R.end();
        R.finish();
        std::printf("RESTART %ld\n", next);
        std::fflush(stdout);
        _exit(0);
    }

    void sched_cb(const char* point, std::size_t who)
    {
        const int id = point_id(point);
        M.counts[id].fetch_add(1, std::memory_order_relaxed);
        if (id != P_wait_spin && id != P_pause_spin)
        {
            std::uint64_t s = M.seq.fetch_add(1, std::memory_order_relaxed);
            M.ev[s % EV_CAP].store((static_cast<std::uint32_t>(id) << 16) | static_cast<std::uint32_t>(who & 0xffff), std::memory_order_relaxed);
            if (id == P_pj_counted && who < MAXW)
                M.counted_seq[who].store(s, std::memory_order_relaxed);
            else if (id == P_pj_woken && who < MAXW)
                M.woken_seq[who].store(s, std::memory_order_relaxed);
            else if (id == P_resume_after)
            {
                M.notify_seq.store(s, std::memory_order_relaxed);
                M.notify_time_ns.store(now_ns(), std::memory_order_relaxed);
                M.spins_since_notify.store(0, std::memory_order_relaxed);
            }
        }
        else if (id == P_wait_spin)
        {
            std::uint64_t sp = M.spins_since_notify.fetch_add(1, std::memory_order_relaxed) + 1;
            if ((sp & 0xffff) == 0 && M.notify_seq.load(std::memory_order_relaxed) != 0)
            {
                long ms = static_cast<long>((now_ns() - M.notify_time_ns.load(std::memory_order_relaxed)) / 1000000);
                if (ms > M.deadlock_limit_ms.load(std::memory_order_relaxed) && sp > 2000000)
                {
                    std::uint64_t ns = M.notify_seq.load(std::memory_order_relaxed);
                    for (std::size_t w = 0; w < MAXW; ++w)
                    {
                        std::uint64_t c = M.counted_seq[w].load(std::memory_order_relaxed);
                        std::uint64_t k = M.woken_seq[w].load(std::memory_order_relaxed);
                        if (c != 0 && c > k && ns > c && !M.deadlock_reported.exchange(true))
                            report_deadlock(w, sp, ms);
                    }
                }
            }
        }
        // seeded delay injection
        int pm = M.delay_permille[id].load(std::memory_order_relaxed);
        if (pm > 0)
        {
            thread_local std::uint64_t st = 0;
            if (st == 0)
                st = M.delay_seed.load(std::memory_order_relaxed) ^ (std::hash<std::thread::id>()(std::this_thread::get_id()) | 1u);
            st ^= st << 13;
            st ^= st >> 7;
            st ^= st << 17;
            if (static_cast<int>(st % 1000) < pm)
            {
                int mx = M.delay_max_us[id].load(std::memory_order_relaxed);
                int us = mx > 0 ? static_cast<int>((st >> 20) % static_cast<std::uint64_t>(mx + 1)) : 0;
                M.delays_injected.fetch_add(1, std::memory_order_relaxed);
                if (us == 0)
                    std::this_thread::yield();
                else
                    std::this_thread::sleep_for(std::chrono::microseconds(us));
            }
        }
    }

    void clear_delays()
    {
        for (int i = 0; i < P_N; ++i)
        {
            M.delay_max_us[i].store(0, std::memory_order_relaxed);
            M.delay_permille[i].store(0, std::memory_order_relaxed);
        }
    }

    void reset_detector()
    {
        for (std::size_t w = 0; w < MAXW; ++w)
        {
            M.counted_seq[w].store(0, std::memory_order_relaxed);
            M.woken_seq[w].store(0, std::memory_order_relaxed);
        }
        M.notify_seq.store(0, std::memory_order_relaxed);
        M.spins_since_notify.store(0, std::memory_order_relaxed);
    }

    // delay plans (asan flavour): 0 none, 1 random everywhere, 2 hold workers between "counted" and
    // the condition-variable wait (lost wake-up window), 3 hold workers before clearing their flag,
    // 4 hold the caller around publication / notification, 5 stagger worker starts
    std::string set_delay_plan(Rng& rng, bool allow)
    {
        clear_delays();
        M.delay_seed.store(rng.next() | 1u, std::memory_order_relaxed);
        if (!allow)
            return "none";
        int plan = static_cast<int>(rng.below(6));
        auto set = [&](int id, int permille, int max_us)
        {
            M.delay_permille[id].store(permille, std::memory_order_relaxed);
            M.delay_max_us[id].store(max_us, std::memory_order_relaxed);
        };
        switch (plan)
        {
            case 0:
                return "none";
            case 1:
                for (int i = 0; i < P_N; ++i)
                    if (i != P_wait_spin && i != P_pause_spin)
                        set(i, 200, 200);
                set(P_wait_spin, 1, 50);
                return "random_everywhere";
            case 2:
                set(P_pj_counted, 1000, static_cast<int>(rng.pick(std::vector<long>{ 200, 2000, 20000 })));
                return "hold_worker_after_counted";
            case 3:
                set(P_before_clear, 700, 500);
                set(P_pj_woken, 300, 300);
                return "hold_worker_before_clear";
            case 4:
                set(P_resume_before, 1000, 500);
                set(P_resume_after, 500, 300);
                set(P_before_publish, 300, 200);
                set(P_after_publish, 300, 200);
                return "hold_caller";
            default:
                set(P_saw_job, 600, 300);
                return "stagger_worker_start";
        }
    }

    // interleaving signature: order of the non-spin events recorded in [from, to)
    std::uint64_t order_signature(std::uint64_t from, std::uint64_t to, bool& overlap, long& nevents)
    {
        Hasher h;
        overlap = false;
        nevents = 0;
        if (to - from > EV_CAP)
            from = to - EV_CAP;
        int running = 0;
        for (std::uint64_t s = from; s < to; ++s)
        {
            std::uint32_t e = M.ev[s % EV_CAP].load(std::memory_order_relaxed);
            h.pod(e);
            ++nevents;
            int id = static_cast<int>(e >> 16);
            if (id == P_saw_job)
            {
                ++running;
                if (running >= 2)
                    overlap = true;
            }
            else if (id == P_before_clear)
                --running;
        }
        return h.h;
    }

    std::set<std::uint64_t> g_signatures;

    // ------------------------------------------------------------------------------------ C11: the pool, driven directly
    using pool_t = fs::thread_pool<std::size_t>;

    struct DispatchLog
    {
        // one slot per runner id (plain memory: a second use of a runner id within one dispatch, or a
        // read by the caller without happens-before, is a data race ThreadSanitizer reports)
        struct Slot
        {
            std::size_t start = 0, end = 0;
            int used = 0;
            long call_id = -1;
        };
        std::vector<Slot> slots;
        std::vector<std::atomic<int>> counters;  // per index, with guard zones
        std::vector<double> out;                 // plain array written by the callbacks
        std::atomic<long> bad_range{ 0 };
        std::atomic<long> stale_call{ 0 };
        std::atomic<long> bad_runner{ 0 };
        std::atomic<long> current_call{ -1 };
        std::size_t base = 0;  // index offset of counters[0]
        DispatchLog(std::size_t nslots, std::size_t ncounters)
            : slots(nslots)
            , counters(ncounters)
            , out(ncounters, 0.0)
        {
        }
    };

    void pool_case(Runner& R, Rng& rng, bool allow_delays, long max_len)
    {
        const char* P = "C11";
        std::vector<std::string> hist;
        auto witness = [&](const std::string& d) { return JObj().raw("history", jarr(hist, [](const std::string& s) { return jstr(s); })).s("detail", d).str(); };
        Hasher ch;
        std::string plan = set_delay_plan(rng, allow_delays);
        R.count("c11.delay_plan." + plan);
        hist.push_back("delay_plan=" + plan);
        reset_detector();
        std::size_t size0 = static_cast<std::size_t>(rng.range(1, 16));
        ch.pod(size0);
        hist.push_back("pool(" + std::to_string(size0) + ")");
        g_case_desc = hist.back();
        long dispatches = 0;
        {
            pool_t pool(size0);
            double u = rng.u01();
            if (u < 0.05)
            {
                // never-started pool destroyed
                hist.push_back("destroy(never started)");
                R.count("c11.destroy_never_started");
            }
            else
            {
                const int rounds = static_cast<int>(rng.range(1, 4));
                long call_id = 0;
                for (int rd = 0; rd < rounds; ++rd)
                {
                    pool.resume();
                    std::size_t n = static_cast<std::size_t>(rng.range(1, 16));
                    if (rng.chance(0.3))
                        n = pool.size();  // no resize
                    hist.push_back("resume; resize(" + std::to_string(n) + ")");
                    g_case_desc += " > " + hist.back();
                    ch.pod(n);
                    pool.resize(n);
                    if (pool.size() != n)
                        R.violation(P, "size_after_resize", witness("size()=" + std::to_string(pool.size())));
                    const int nd = static_cast<int>(rng.range(0, 4));
                    for (int d = 0; d < nd; ++d)
                    {
                        std::size_t first = rng.pick(std::vector<std::size_t>{ 0, 0, 5, 1000 });
                        std::vector<long> lens{ 0, 1, 2, static_cast<long>(n) - 1, static_cast<long>(n), static_cast<long>(n) + 1, 37, 1000, max_len };
                        long len = std::max<long>(0, rng.pick(lens));
                        std::vector<long> mins{ 0, 0, 1, 3, len, len + 1, 1000000 };
                        std::size_t mn = static_cast<std::size_t>(rng.pick(mins));
                        const std::size_t guard = 64;
                        DispatchLog L(std::max<std::size_t>(n, 1) + 8, static_cast<std::size_t>(len) + 2 * guard);
                        L.base = first >= guard ? first - guard : 0;
                        const std::size_t lo = first, hi = first + static_cast<std::size_t>(len);
                        ++call_id;
                        L.current_call.store(call_id, std::memory_order_relaxed);
                        const long my_call = call_id;
                        hist.push_back("run_blocks(" + std::to_string(lo) + "," + std::to_string(hi) + ",min=" + std::to_string(mn) + ")");
                        g_case_desc += " > " + hist.back();
                        ch.pod(lo);
                        ch.pod(hi);
                        ch.pod(mn);
                        DispatchLog* Lp = &L;
                        auto cb = [Lp, lo, hi, my_call, n](std::size_t runner, std::size_t start, std::size_t end)
                        {
                            if (Lp->current_call.load(std::memory_order_relaxed) != my_call)
                            {
                                Lp->stale_call.fetch_add(1, std::memory_order_relaxed);
                                return;
                            }
                            if (start < lo || end > hi || start > end)
                            {
                                Lp->bad_range.fetch_add(1, std::memory_order_relaxed);
                                return;
                            }
                            if (runner >= Lp->slots.size() || runner >= n)
                            {
                                Lp->bad_runner.fetch_add(1, std::memory_order_relaxed);
                                if (runner >= Lp->slots.size())
                                    return;
                            }
                            auto& s = Lp->slots[runner];
                            s.start = start;
                            s.end = end;
                            s.used += 1;
                            s.call_id = my_call;
                            for (std::size_t i = start; i < end; ++i)
                            {
                                Lp->counters[i - Lp->base].fetch_add(1, std::memory_order_relaxed);
                                Lp->out[i - Lp->base] = static_cast<double>(i) * 0.5 + static_cast<double>(my_call);
                            }
                        };
                        std::uint64_t s0 = M.seq.load(std::memory_order_relaxed);
                        pool.run_blocks(lo, hi, cb, mn);
                        std::uint64_t s1 = M.seq.load(std::memory_order_relaxed);
                        ++dispatches;
                        // --- monitors, immediately after return
                        if (L.stale_call.load() || L.bad_range.load() || L.bad_runner.load())
                            R.violation(P, L.bad_range.load() ? "block_outside_range" : (L.stale_call.load() ? "stale_callback" : "runner_id_out_of_range"),
                                        witness("bad_range=" + std::to_string(L.bad_range.load()) + " stale=" + std::to_string(L.stale_call.load()) + " bad_runner=" + std::to_string(L.bad_runner.load())));
                        bool counts_ok = true;
                        for (std::size_t c = 0; c < L.counters.size(); ++c)
                        {
                            std::size_t idx = c + L.base;
                            int want = (idx >= lo && idx < hi) ? 1 : 0;
                            int got = L.counters[c].load(std::memory_order_relaxed);
                            if (got != want)
                            {
                                R.violation(P, got < want ? "index_not_executed_before_return" : "index_executed_more_than_once",
                                            witness("index " + std::to_string(idx) + " executed " + std::to_string(got) + " times when run_blocks returned"));
                                counts_ok = false;
                                break;
                            }
                            if (want && L.out[c] != static_cast<double>(idx) * 0.5 + static_cast<double>(my_call))
                            {
                                R.violation(P, "callback_write_not_visible", witness("index " + std::to_string(idx)));
                                counts_ok = false;
                                break;
                            }
                        }
                        // blocks: contiguous, disjoint, union = range, number <= pool size
                        std::vector<std::pair<std::size_t, std::size_t>> blocks;
                        for (std::size_t r = 0; r < L.slots.size(); ++r)
                        {
                            auto& s = L.slots[r];
                            if (s.used > 1)
                                R.violation(P, "runner_used_twice", witness("runner " + std::to_string(r)));
                            if (s.used >= 1)
                                blocks.push_back({ s.start, s.end });
                        }
                        std::sort(blocks.begin(), blocks.end());
                        if (counts_ok)
                        {
                            bool ok = blocks.size() <= n;
                            std::size_t pos = lo;
                            for (auto& b : blocks)
                            {
                                if (b.first != pos || b.second <= b.first)
                                    ok = false;
                                pos = b.second;
                            }
                            if (len > 0 && pos != hi)
                                ok = false;
                            if (len == 0 && !blocks.empty())
                                ok = false;
                            if (!ok)
                                R.violation(P, "blocks_not_a_partition",
                                            witness("blocks " + jarr(blocks, [](const auto& b) { return "[" + std::to_string(b.first) + "," + std::to_string(b.second) + ")"; }) + " pool size " + std::to_string(n)));
                        }
                        R.count("c11.dispatches");
                        R.count("c11.indices_checked", len);
                        R.maxc("c11.blocks_max", static_cast<long>(blocks.size()));
                        if (blocks.size() >= 2)
                            R.count("c11.dispatches_with_2+_blocks");
                        if (static_cast<std::size_t>(len) < n && len > 0)
                            R.count("c11.dispatches_range_shorter_than_pool");
                        bool overlap;
                        long nev;
                        std::uint64_t sig = order_signature(s0, s1, overlap, nev);
                        g_signatures.insert(sig);
                        R.count("c11.hook_events", nev);
                        if (overlap)
                            R.count("c11.dispatches_with_overlapping_blocks");
                    }
                    // pause (or destroy without pausing on the last round sometimes)
                    if (rd == rounds - 1 && rng.chance(0.3))
                    {
                        hist.push_back("destroy(running)");
                        R.count("c11.destroy_running");
                    }
                    else
                    {
                        hist.push_back("pause");
                        g_case_desc += " > pause";
                        pool.pause();
                        if (!pool.paused())
                            R.violation(P, "not_paused_after_pause", witness(""));
                        R.count("c11.pauses");
                        if (rd == rounds - 1)
                        {
                            hist.push_back("destroy(paused)");
                            R.count("c11.destroy_paused");
                        }
                    }
                }
            }
            g_case_desc += " > destroy";
        }  // pool destroyed here: must terminate
        clear_delays();
        R.count("c11.histories");
        R.set_case_hash(ch.h);
        R.nontrivial(dispatches >= 1);
        if (R.want_sample())
            R.sample(JObj().raw("history", jarr(hist, [](const std::string& s) { return jstr(s); })).str());
    }

    // ------------------------------------------------------------------------------------ C10: router and kernels through the graph
    struct Env
    {
        GridSpec g;
        RefGeom R;
        std::unique_ptr<grid_t> grid;
    };

    Env make_env_conc(Rng& rng, std::size_t max_side)
    {
        Env e;
        GridGenOpts o;
        o.max_side = max_side;
        o.max_profile = max_side * max_side;
        o.allow_overrides = rng.chance(0.3);
        const std::size_t min_nodes = rng.chance(0.15) ? 3 : 24;  // sometimes fewer nodes than threads
        for (int tries = 0; tries < 50; ++tries)
        {
            e.g = gen_grid_spec(rng, o);
            if (e.g.size() >= min_nodes)
                break;
        }
        e.R = ref_geom(e.g);
        e.grid = make_grid(e.g);
        return e;
    }

    Digest route_digest(graph_t& graph, const std::vector<double>& h)
    {
        Digest D;
        D.add_d("returned_elevation", h);
        GState S = extract(graph.impl());
        digest_tables(D, S);
        D.add_d("accumulate(1)", flat_vec(graph.accumulate(1.0)));
        return D;
    }


    // ------------------------------------------------------------------------------------ independent objects on two threads
    // Two families of objects that share nothing (own grid, own flow graph, own eroders) are driven through the same steps
    // (a) one after the other and (b) at the same time on two threads. Every statement about "a grid" / "a flow graph" / "an
    // eroder" speaks of the object and its inputs only: what another object of the same type does at the same moment is not
    // an input, so (b) must reproduce (a) bit for bit. Under ThreadSanitizer any state the two families do share (function-local
    // statics, class statics, thread-unsafe lazy initialisation) is reported from the access pattern alone.
    struct IndepWorld
    {
        Env env;
        std::vector<OpSpec> ops;
        GraphBundle gb;
        std::vector<std::vector<double>> fields;   // one per step
        std::vector<std::uint8_t> mask;
        std::vector<std::size_t> bl;
        bool custom_bl = false;
        double k_spl = 1e-4, m_exp = 0.5, n_exp = 1.0, dt_spl = 1.0, k_adi = 1.0, dt_adi = 1.0;
        bool multi = false;
    };

    // the diffusion eroder exists for raster grids only
    template <class G, bool is_raster>
    struct AdiBox
    {
        void make(G&, double)
        {
        }
        std::vector<double> erode(const arr_t&, double)
        {
            return {};
        }
    };
    template <class G>
    struct AdiBox<G, true>
    {
        std::unique_ptr<fs::diffusion_adi_eroder<G>> er;
        void make(G& grid, double k)
        {
            er = std::make_unique<fs::diffusion_adi_eroder<G>>(grid, k);
        }
        std::vector<double> erode(const arr_t& z, double dt)
        {
            return flat_vec(er->erode(z, dt));
        }
    };

    // runs every step on the world's own objects; returns one digest per step. `what`: 0 grid queries only, 1 + routes,
    // 2 + spl, 3 grid + adi
    std::vector<Digest> indep_run(IndepWorld& W, int what)
    {
        std::vector<Digest> out;
        using spl_t = fs::spl_eroder<graph_t>;
        std::unique_ptr<spl_t> spl;
        if (what == 2)
            spl = std::make_unique<spl_t>(*W.gb.graph, W.k_spl, W.m_exp, W.n_exp, 1e-3);
        AdiBox<grid_t, family == Family::raster> adi;
        if (what == 3)
            adi.make(*W.env.grid, W.k_adi);
        const std::size_t n = W.env.R.n;
        for (std::size_t s = 0; s < W.fields.size(); ++s)
        {
            Digest D;
            // neighbour queries (cache / scratch storage of the grid)
            {
                std::vector<std::uint64_t> q;
                typename grid_t::neighbors_type nb;
                for (std::size_t i = s % 3; i < n; i += 3)
                {
                    W.env.grid->neighbors(i, nb);
                    q.push_back(nb.size());
                    for (auto& e : nb)
                    {
                        q.push_back(e.idx);
                        q.push_back(bits(e.distance));
                    }
                }
                D.add("neighbors", std::move(q));
            }
            arr_t z = to_arr(W.env.g, W.fields[s]);
            if (what == 1 || what == 2)
            {
                const arr_t& h = W.gb.graph->update_routes(z);
                std::vector<double> hv = flat_vec(h);
                D.add_d("returned_elevation", hv);
                GState S = extract(W.gb.graph->impl());
                digest_tables(D, S);
                D.add_d("accumulate(1)", flat_vec(W.gb.graph->accumulate(1.0)));
                D.add_s("basins", flat_vec(W.gb.graph->basins()));
                if (what == 2)
                {
                    arr_t area = W.gb.graph->accumulate(1.0);
                    for (std::size_t i = 0; i < n; ++i)
                        if (!(area.flat(i) > 0))
                            area.flat(i) = 1e-300;
                    const arr_t& e = spl->erode(h, area, W.dt_spl);
                    D.add_d("spl_erosion", flat_vec(e));
                    D.add_s("spl_n_corr", { spl->n_corr() });
                }
            }
            if (what == 3)
                D.add_d("adi_erosion", adi.erode(z, W.dt_adi));
            out.push_back(std::move(D));
        }
        return out;
    }

    // bias: 0 any operator family, 1 mostly the multiple-direction router, 2 sequences with a sink resolver only
    void indep_fill(IndepWorld& W, Rng& rng, std::size_t max_side, int what, std::size_t nsteps, int bias = 0)
    {
        GridGenOpts o;
        o.max_side = max_side;
        o.max_profile = max_side * max_side;
        o.allow_overrides = rng.chance(0.3);
        for (int tries = 0; tries < 50; ++tries)
        {
            W.env.g = gen_grid_spec(rng, o);
            bool ok = W.env.g.size() >= 12;
            if (what == 3 && family == Family::raster)
                ok = ok && W.env.g.rows >= 3 && W.env.g.cols >= 3;
            if (ok)
                break;
        }
        W.env.R = ref_geom(W.env.g);
        std::uint64_t variant = rng.below(6);
        if (bias == 1 && rng.chance(0.6))
            variant = 3;
        else if (bias == 2)
            variant = 1 + rng.below(4);
        switch (variant)
        {
            case 0:
                W.ops = { op_single() };
                break;
            case 1:
                W.ops = { op_pflood(), op_single() };
                break;
            case 2:
                W.ops = { op_single(), op_mst(rng.chance(0.5) ? fs::mst_method::kruskal : fs::mst_method::boruvka, fs::mst_route_method::carve) };
                break;
            case 3:
                W.ops = { op_pflood(), op_multi(rng.pick(std::vector<double>{ 0.0, 1.0, 1.1, 2.0 })) };
                W.multi = true;
                break;
            case 4:
                W.ops = { op_single(), op_snap("s", true, true), op_mst(fs::mst_method::kruskal, fs::mst_route_method::basic) };
                break;
            default:
                W.ops = { op_single_par(static_cast<int>(rng.range(2, 4))) };
                break;
        }
        for (std::size_t s = 0; s < nsteps; ++s)
        {
            int cls = static_cast<int>(rng.below(n_field_classes));
            if (cls == 6 || cls == 5)
                cls = 0;  // eroder steps: keep ordinary magnitudes
            W.fields.push_back(gen_field_spec(rng, W.env.g, W.env.R, cls));
        }
        FlowInputs in;
        in.z = W.fields[0];
        std::string c1, c2;
        in.mask = gen_mask(rng, W.env.g, W.env.R, c1);
        in.custom_bl = gen_base_levels(rng, W.env.R, in.bl, c2);
        fix_domain(rng, W.env.R, in, false);
        W.mask = in.mask;
        W.bl = in.bl;
        W.custom_bl = in.custom_bl;
        W.k_spl = rng.logu(1e-6, 1e-2);
        W.m_exp = rng.pick(std::vector<double>{ 0.4, 0.5, 1.0 });
        W.n_exp = W.multi ? 1.0 : rng.pick(std::vector<double>{ 1.0, 1.0, 0.8, 1.5, 2.0 });
        W.dt_spl = rng.pick(std::vector<double>{ 1.0, 1e2, 1e4 });
        W.k_adi = rng.logu(1e-3, 1e2);
        W.dt_adi = rng.pick(std::vector<double>{ 1e-2, 1.0, 1e2 });
    }

    // fresh objects for the world's specification
    void indep_build(IndepWorld& W)
    {
        W.env.grid = make_grid(W.env.g);
        W.gb = build_graph(*W.env.grid, W.ops);
        if (W.custom_bl)
            W.gb.graph->set_base_levels(W.bl);
        if (!W.mask.empty())
            W.gb.graph->set_mask(to_mask(W.env.g, W.mask));
    }

    void indep_case(Runner& R, Rng& rng, const std::string& prop, std::size_t max_side)
    {
        int what = 1;
        const char* P = "C09";
        // the flow properties (filled elevation, accumulation, router tables, traversal orders, basin labels) are all part of the
        // routed state compared here: checked under whichever of them is being run
        static const char* const flow_props[] = { "C01", "C02", "C03", "C04", "C05", "C06", "C19" };
        for (auto fp : flow_props)
            if (prop == fp)
                P = fp;
        if (prop == "C07" || prop == "C17" || prop == "C18")
        {
            what = 0;
            P = prop == "C17" ? "C17" : (prop == "C18" ? "C18" : "C07");
        }
        else if (prop == "C12" || prop == "C13")
        {
            what = 2;
            P = prop == "C12" ? "C12" : "C13";
        }
        else if (prop == "C14")
        {
            what = 3;
            P = "C14";
        }
        else if (prop == "all")
            what = static_cast<int>(rng.below(4));
        if (what == 3 && family != Family::raster)
            what = 0;
        if (prop == "all")
            P = what == 0 ? "C07" : (what == 1 ? "C09" : (what == 2 ? "C13" : "C14"));
        clear_delays();
        const std::size_t nsteps = static_cast<std::size_t>(rng.range(2, 5));
        IndepWorld A, B;
        const int bias = (prop == "C03" || prop == "C05") ? 1 : ((prop == "C01" || prop == "C02") ? 2 : 0);
        indep_fill(A, rng, max_side, what, nsteps, bias);
        indep_fill(B, rng, max_side, what, nsteps, bias);
        if (rng.chance(0.7))
        {
            // mostly the same operator family in both worlds: state shared by accident lives in one code path
            B.ops = A.ops;
            B.multi = A.multi;
            if (B.multi)
                B.n_exp = 1.0;
        }
        Hasher ch;
        A.env.g.hash_into(ch);
        B.env.g.hash_into(ch);
        for (auto& f : A.fields)
            ch.vec(f);
        // (a) one after the other
        indep_build(A);
        indep_build(B);
        std::vector<Digest> refA = indep_run(A, what), refB = indep_run(B, what);
        // (b) fresh objects, both families at the same time
        const int rounds = 2;
        for (int round = 0; round < rounds; ++round)
        {
            // every object of a family (grid, flow graph, eroders) is also *constructed* on the family's thread, at the same time
            // as the other family constructs its own
            std::vector<Digest> gotA, gotB;
            std::atomic<int> ready{ 0 };
            auto body = [&](IndepWorld& W, std::vector<Digest>& got)
            {
                ready.fetch_add(1);
                while (ready.load() < 2)
                    std::this_thread::yield();
                indep_build(W);
                got = indep_run(W, what);
            };
            std::thread tb([&]() { body(B, gotB); });
            body(A, gotA);
            tb.join();
            R.count("indep.concurrent_rounds");
            R.count(std::string("indep.kind.") + (what == 0 ? "grid_queries" : (what == 1 ? "routes" : (what == 2 ? "spl" : "adi"))));
            auto cmp = [&](const char* who, const std::vector<Digest>& ref, const std::vector<Digest>& got, const IndepWorld& W)
            {
                for (std::size_t s = 0; s < ref.size() && s < got.size(); ++s)
                {
                    std::string d = ref[s].diff(got[s]);
                    if (!d.empty())
                    {
                        R.violation(P, "concurrent_independent_objects_differ:" + d.substr(0, d.find_first_of("[:")),
                                    JObj().raw("grid", W.env.g.json(100)).raw("operators", ops_json(W.ops)).s("family", who).i("step", static_cast<long>(s))
                                        .s("detail", std::string("objects of family ") + who + " driven alone vs while an independent family runs on another thread: " + d).str());
                        return false;
                    }
                }
                return true;
            };
            if (!cmp("A", refA, gotA, A) || !cmp("B", refB, gotB, B))
                break;
            R.count("indep.steps_compared", static_cast<long>(2 * nsteps));
        }
        if (what == 0)
        {
            // one fresh grid object queried by two threads at the same time on disjoint sets of nodes: this is what the
            // multi-threaded router does (each worker looks up the neighbours of its own block of nodes), and the per-node
            // neighbour cache is laid out for it. Compared with the look-ups of a grid object used by one thread only.
            auto ref_grid = make_grid(A.env.g);
            const std::size_t n = A.env.R.n;
            auto lookup = [](grid_t& g, std::size_t i)
            {
                std::vector<std::uint64_t> q;
                typename grid_t::neighbors_type nb;
                g.neighbors(i, nb);
                q.push_back(nb.size());
                for (auto& e : nb)
                {
                    q.push_back(e.idx);
                    q.push_back(bits(e.distance));
                    q.push_back(static_cast<std::uint64_t>(e.status));
                }
                return q;
            };
            std::vector<std::vector<std::uint64_t>> want(n), got(n);
            for (std::size_t i = 0; i < n; ++i)
                want[i] = lookup(*ref_grid, i);
            auto shared = make_grid(A.env.g);
            const std::size_t nthreads = static_cast<std::size_t>(rng.range(2, 4));
            const bool blocks = rng.chance(0.5);  // contiguous blocks (as the router) or interleaved nodes
            // read-only use of the fresh grid from every thread first: (status-filtered) node iteration in both directions and
            // the construction of a flow graph on it (which takes its default base levels from the fixed-value nodes). These
            // are const operations on the grid; their very first use may come from several threads at once.
            auto iterate = [](const grid_t& g)
            {
                std::vector<std::uint64_t> q;
                for (auto i : g.nodes_indices())
                    q.push_back(i);
                for (int s = 0; s < 4; ++s)
                {
                    q.push_back(~std::uint64_t(0));
                    auto ni = g.nodes_indices(static_cast<NS>(s));
                    for (auto it = ni.begin(); it != ni.end(); ++it)
                        q.push_back(*it);
                    q.push_back(~std::uint64_t(0) - 1);
                    for (auto it = ni.rbegin(); it != ni.rend(); ++it)
                        q.push_back(*it);
                }
                return q;
            };
            auto default_base_levels = [](grid_t& g)
            {
                GraphBundle gb = build_graph(g, { op_single() });
                auto bl = gb.graph->base_levels();
                std::sort(bl.begin(), bl.end());
                return std::vector<std::uint64_t>(bl.begin(), bl.end());
            };
            const std::vector<std::uint64_t> want_iter = iterate(*ref_grid), want_bl = default_base_levels(*ref_grid);
            std::vector<std::vector<std::uint64_t>> got_iter(nthreads), got_bl(nthreads);
            const bool also_graphs = rng.chance(0.5);
            std::atomic<std::size_t> ready{ 0 };
            auto body = [&](std::size_t t)
            {
                ready.fetch_add(1);
                while (ready.load() < nthreads)
                    std::this_thread::yield();
                got_iter[t] = iterate(*shared);
                if (also_graphs)
                    got_bl[t] = default_base_levels(*shared);
                for (std::size_t i = 0; i < n; ++i)
                {
                    const std::size_t owner = blocks ? std::min(nthreads - 1, i * nthreads / n) : i % nthreads;
                    if (owner == t)
                        got[i] = lookup(*shared, i);
                }
            };
            std::vector<std::thread> th;
            for (std::size_t t = 1; t < nthreads; ++t)
                th.emplace_back(body, t);
            body(0);
            for (auto& t : th)
                t.join();
            R.count("indep.shared_grid_disjoint_nodes_rounds");
            for (std::size_t t = 0; t < nthreads; ++t)
                if (got_iter[t] != want_iter || (also_graphs && got_bl[t] != want_bl))
                {
                    R.violation(P == std::string("C07") ? "C17" : P, "concurrent_first_iteration_of_a_shared_grid_differs",
                                JObj().raw("grid", A.env.g.json(100)).i("thread", static_cast<long>(t)).i("threads", static_cast<long>(nthreads))
                                    .s("detail", got_iter[t] != want_iter ? "node iteration (all / by status, both directions) on a fresh grid shared read-only by several threads differs from the single-threaded lists"
                                                                          : "default base levels of a flow graph constructed on a fresh grid while other threads read the same grid differ from the fixed-value nodes").str());
                    break;
                }
            R.count("indep.shared_grid_concurrent_iterations", static_cast<long>(nthreads));
            for (std::size_t i = 0; i < n; ++i)
                if (got[i] != want[i])
                {
                    R.violation(P, "concurrent_lookups_of_disjoint_nodes_differ",
                                JObj().raw("grid", A.env.g.json(100)).i("node", static_cast<long>(i)).i("threads", static_cast<long>(nthreads))
                                    .s("detail", "neighbours of node " + std::to_string(i) + " looked up while other threads look up other nodes of the same grid object differ from a single-threaded look-up").str());
                    break;
                }
        }
        R.set_case_hash(ch.h);
        R.nontrivial(true);
    }

    void graph_case(Runner& R, Rng& rng, bool allow_delays, std::size_t max_side, int repeats)
    {
        const char* P = "C10";
        Env env = make_env_conc(rng, max_side);
        const std::size_t n = env.R.n;
        std::string plan = set_delay_plan(rng, allow_delays);
        R.count("c10.delay_plan." + plan);
        reset_detector();
        // operator sequences: router only, or resolver + router (the router under test is last or first)
        int t = static_cast<int>(rng.range(2, 16));
        int variant = static_cast<int>(rng.below(4));
        std::vector<OpSpec> seq_ops, par_ops;
        switch (variant)
        {
            case 0:
                seq_ops = { op_single() };
                par_ops = { op_single_par(t) };
                break;
            case 1:
                seq_ops = { op_pflood(), op_single() };
                par_ops = { op_pflood(), op_single_par(t) };
                break;
            case 2:
                seq_ops = { op_single(), op_mst(fs::mst_method::kruskal, fs::mst_route_method::carve) };
                par_ops = { op_single_par(t), op_mst(fs::mst_method::kruskal, fs::mst_route_method::carve) };
                break;
            default:
                seq_ops = { op_single(), op_snap("s", true, false), op_multi(1.0) };
                par_ops = { op_single_par(t), op_snap("s", true, false), op_multi(1.0) };
                break;
        }
        auto seq_grid = make_grid(env.g);
        GraphBundle SG = build_graph(*seq_grid, seq_ops);
        GraphBundle PG = build_graph(*env.grid, par_ops);
        Hasher ch;
        env.g.hash_into(ch);
        for (auto& o : par_ops)
            o.hash_into(ch);
        std::vector<std::string> hist;
        hist.push_back("delay_plan=" + plan);
        g_case_desc = ops_label(par_ops) + " on " + grid_name;
        auto witness = [&](const FlowInputs& in, const std::string& d)
        {
            return JObj()
                .raw("grid", env.g.json(200))
                .raw("operators", ops_json(par_ops))
                .raw("history", jarr(hist, [](const std::string& s) { return jstr(s); }))
                .raw("inputs", inputs_json(in, 200))
                .s("detail", d)
                .str();
        };
        const int nsteps = static_cast<int>(rng.range(1, 3)) + (variant >= 3 ? 1 : 0);
        const int snap_threads = static_cast<int>(rng.range(2, 6));
        const int snap_min_level = static_cast<int>(rng.pick(std::vector<long>{ 0, 0, 2, 5 }));
        FlowInputs in;
        for (int s = 0; s < nsteps; ++s)
        {
            int cls = static_cast<int>(rng.below(n_field_classes));
            // later steps sometimes keep the surface (exactly, or up to a few nodes) while the mask / base levels change: an
            // update that depends on less than its full current inputs (change detection, incremental shortcuts) shows here
            const bool keep_surface = s > 0 && rng.chance(0.35);
            if (keep_surface)
            {
                in.field_cls = "previous_surface";
                if (rng.chance(0.4))
                    for (long k = rng.range(1, 3); k > 0; --k)
                        in.z[rng.below(n)] += rng.uniform(-1.0, 1.0);
                R.count("c10.updates_keeping_the_previous_surface");
            }
            else
            {
                in.field_cls = field_class_name(cls);
                in.z = gen_field_spec(rng, env.g, env.R, cls);
            }
            if (keep_surface && rng.chance(0.5))
            {
                // small edits of the inputs in force: a few more base levels and / or a few more masked nodes, nothing removed
                if (rng.chance(0.7))
                {
                    for (long k = rng.range(1, 3); k > 0; --k)
                        in.bl.push_back(rng.below(n));
                    std::sort(in.bl.begin(), in.bl.end());
                    in.bl.erase(std::unique(in.bl.begin(), in.bl.end()), in.bl.end());
                    in.custom_bl = true;
                    in.bl_cls = "previous_plus_a_few_nodes";
                }
                else
                {
                    if (in.mask.empty())
                        in.mask.assign(n, 0);
                    for (long k = rng.range(1, 3); k > 0; --k)
                        in.mask[rng.below(n)] = 1;
                    in.mask_cls = "previous_plus_a_few_nodes";
                }
                R.count("c10.updates_after_small_edits_of_mask_or_base_levels");
            }
            else if (s == 0 || rng.chance(keep_surface ? 0.8 : 0.3))
            {
                auto mk = gen_mask(rng, env.g, env.R, in.mask_cls);
                // a mask, once set on a graph, stays set: "no mask" afterwards means an all-false mask
                if (mk.empty() && !in.mask.empty())
                    mk.assign(n, 0);
                in.mask = mk;
                in.custom_bl = gen_base_levels(rng, env.R, in.bl, in.bl_cls) || in.custom_bl;
            }
            fix_domain(rng, env.R, in, false);
            hash_inputs(ch, in);
            apply_inputs(*SG.graph, env.g, in);
            apply_inputs(*PG.graph, env.g, in);
            arr_t z1 = to_arr(env.g, in.z), z2 = to_arr(env.g, in.z);
            const arr_t& hs = SG.graph->update_routes(z1);
            Digest DS = route_digest(*SG.graph, flat_vec(hs));
            for (int rep = 0; rep < repeats; ++rep)
            {
                if (rep > 0)
                {
                    // a fresh field for each repeat: a block that is skipped leaves observably stale routes
                    int cls2 = static_cast<int>(rng.below(n_field_classes));
                    in.field_cls = field_class_name(cls2);
                    in.z = gen_field_spec(rng, env.g, env.R, cls2);
                    hash_inputs(ch, in);
                    z1 = to_arr(env.g, in.z);
                    z2 = to_arr(env.g, in.z);
                    const arr_t& hs2 = SG.graph->update_routes(z1);
                    DS = route_digest(*SG.graph, flat_vec(hs2));
                }
                hist.push_back("update_routes(" + in.field_cls + ", threads=" + std::to_string(t) + ")");
                std::uint64_t s0 = M.seq.load(std::memory_order_relaxed);
                const arr_t& hp = PG.graph->update_routes(z2);
                std::uint64_t s1 = M.seq.load(std::memory_order_relaxed);
                Digest DP = route_digest(*PG.graph, flat_vec(hp));
                std::string d = DS.diff(DP);
                R.count("c10.parallel_updates_compared");
                if (!d.empty())
                {
                    R.violation(P, "parallel_router_differs:" + d.substr(0, d.find_first_of("[:")), witness(in, "sequential vs " + std::to_string(t) + " threads: " + d));
                    break;
                }
                bool overlap;
                long nev;
                g_signatures.insert(order_signature(s0, s1, overlap, nev));
                R.count("c10.hook_events", nev);
                if (overlap)
                    R.count("c10.updates_with_overlapping_blocks");
            }
            // accumulate() is a const query: concurrent calls on the same routed graph must each return the
            // upstream integral of their own source (C03), whatever the other threads ask for
            {
                std::vector<double> srcv(n);
                for (auto& v : srcv)
                    v = rng.uniform(0.0, 3.0);
                arr_t src_arr = to_arr(env.g, srcv);
                const graph_t& cg = *PG.graph;
                std::vector<double> want_scalar = flat_vec(cg.accumulate(1.0));
                std::vector<double> want_array = flat_vec(cg.accumulate(src_arr));
                std::vector<double> got_scalar, got_array;
                const int rounds = 3;
                bool differ = false;
                for (int rd = 0; rd < rounds && !differ; ++rd)
                {
                    std::thread ta(
                        [&]()
                        {
                            for (int q = 0; q < 4; ++q)
                                got_scalar = flat_vec(cg.accumulate(1.0));
                        });
                    std::thread tb(
                        [&]()
                        {
                            arr_t acc = arr_t::from_shape(grid_shape_vec(env.g));
                            for (int q = 0; q < 4; ++q)
                            {
                                cg.accumulate(acc, src_arr);
                                got_array = flat_vec(acc);
                            }
                        });
                    ta.join();
                    tb.join();
                    for (std::size_t i = 0; i < n && !differ; ++i)
                        if (bits(got_scalar[i]) != bits(want_scalar[i]) || bits(got_array[i]) != bits(want_array[i]))
                        {
                            differ = true;
                            R.violation("C03", "concurrent_calls_differ",
                                        witness(in, "node " + std::to_string(i) + ": two threads calling accumulate() with different sources on the same graph: scalar "
                                                        + jhex(got_scalar[i]) + " (sequential " + jhex(want_scalar[i]) + "), array " + jhex(got_array[i]) + " (sequential "
                                                        + jhex(want_array[i]) + ")"));
                        }
                }
                R.count("c03.concurrent_accumulate_rounds", rounds);
            }

            // kernels: breadth-first upstream (order dependent) and any-order, parallel vs sequential
            std::vector<double> kin(n);
            for (auto& v : kin)
                v = rng.uniform(-1, 1);
            if (rng.chance(0.3))
            {
                // kernel requests the library refuses (documented errors): unsupported traversal orders, a node-data getter that
                // reports an invalid index. They must fail cleanly; the regular kernels below run on the same graph and pool
                // afterwards and must still equal the sequential results
                auto refused = [&](const char* what, fs::flow_graph_traversal_dir dir, int nt, bool failing_getter)
                {
                    std::vector<double> out(n, -1.0);
                    KData D;
                    D.impl = &PG.graph->impl();
                    D.out = &out;
                    D.in = &kin;
                    fs::detail::flow_kernel_data kd;
                    kd.data = &D;
                    auto k = make_kernel(dir, nt, 0, 0);
                    if (failing_getter)
                    {
                        auto inner = k.node_data_getter;
                        const std::size_t bad = rng.below(n);
                        k.node_data_getter = [inner, bad](std::size_t idx, void* data, void* nd) -> int { return idx == bad ? 1 : inner(idx, data, nd); };
                    }
                    try
                    {
                        PG.graph->apply_kernel(k, kd);
                        R.count(std::string("c10.kernel_request_accepted.") + what);
                    }
                    catch (const std::runtime_error&)
                    {
                        R.count(std::string("c10.kernel_request_refused.") + what);
                    }
                };
                refused("sequential_downstream", rng.chance(0.5) ? fs::flow_graph_traversal_dir::depth_downstream : fs::flow_graph_traversal_dir::breadth_downstream, 1, false);
                refused("parallel_depth_first", rng.chance(0.5) ? fs::flow_graph_traversal_dir::depth_upstream : fs::flow_graph_traversal_dir::depth_downstream, static_cast<int>(rng.range(2, 8)), false);
                refused("sequential_getter_error", fs::flow_graph_traversal_dir::breadth_upstream, 1, true);
            }
            for (int kk = 0; kk < 3; ++kk)
            {
                // breadth-first upstream and any order run in parallel; depth-first upstream is sequential only (compared with the
                // breadth-first result: both are valid bottom-up orders for this kernel, see C06)
                auto dir = kk == 0 ? fs::flow_graph_traversal_dir::breadth_upstream : (kk == 1 ? fs::flow_graph_traversal_dir::any : fs::flow_graph_traversal_dir::depth_upstream);
                std::vector<double> ref = run_kernel(*SG.graph, dir, 1, 0, 0, kin);
                if (kk == 2)
                {
                    std::vector<double> got = run_kernel(*PG.graph, dir, 1, 0, 0, kin);
                    R.count("c10.depth_first_kernels_compared");
                    for (std::size_t i = 0; i < n; ++i)
                        if (bits(got[i]) != bits(ref[i]))
                        {
                            R.violation(P, "sequential_kernel_differs:depth_upstream", witness(in, "node " + std::to_string(i) + ": " + jhex(got[i]) + " on the graph routed in parallel vs " + jhex(ref[i])));
                            break;
                        }
                    continue;
                }
                int reps = std::max(2, repeats / 2);
                int kt = t;  // first: same thread count as the router (no resize), then sticky / random
                for (int rep = 0; rep < reps; ++rep)
                {
                    if (rep > 0 && rng.chance(0.5))
                        kt = static_cast<int>(rng.range(2, 16));
                    else if (rep == 0 && rng.chance(0.4))
                        kt = static_cast<int>(rng.range(2, 16));
                    int mb = static_cast<int>(rng.pick(std::vector<long>{ 0, 0, 1, 7, 1000000 }));
                    int ml = static_cast<int>(rng.pick(std::vector<long>{ 0, 0, 1, 50, 1000000 }));
                    hist.push_back(std::string(kk == 0 ? "kernel(breadth_upstream" : "kernel(any") + ", threads=" + std::to_string(kt) + ", min_block=" + std::to_string(mb) + ", min_level=" + std::to_string(ml) + ")");
                    std::vector<std::atomic<int>> per_node(n);
                    std::atomic<long> calls{ 0 };
                    std::uint64_t s0 = M.seq.load(std::memory_order_relaxed);
                    std::vector<double> got = run_kernel(*PG.graph, dir, kt, mb, ml, kin, &calls, &per_node);
                    std::uint64_t s1 = M.seq.load(std::memory_order_relaxed);
                    R.count("c10.parallel_kernels_compared");
                    bool bad = false;
                    for (std::size_t i = 0; i < n && !bad; ++i)
                    {
                        if (per_node[i].load() != 1)
                        {
                            R.violation(P, "kernel_not_applied_exactly_once", witness(in, "node " + std::to_string(i) + " visited " + std::to_string(per_node[i].load()) + " times"));
                            bad = true;
                        }
                        else if (bits(got[i]) != bits(ref[i]))
                        {
                            R.violation(P, std::string("parallel_kernel_differs:") + (kk == 0 ? "breadth_upstream" : "any"),
                                        witness(in, "node " + std::to_string(i) + ": " + jhex(got[i]) + " vs sequential " + jhex(ref[i])));
                            bad = true;
                        }
                    }
                    bool overlap;
                    long nev;
                    g_signatures.insert(order_signature(s0, s1, overlap, nev));
                    R.count("c10.hook_events", nev);
                    if (overlap)
                        R.count("c10.kernels_with_overlapping_blocks");
                    if (bad)
                        break;
                }
            }
            if (variant >= 3)
            {
                // graph snapshots are flow graphs too: the same level-parallel kernel, with the same settings at every update of the
                // case, applied to the snapshot must equal the sequential application (the snapshot's levels change with every update
                // of its parent, never through an update of its own)
                graph_t& psnap = PG.graph->graph_snapshot("s");
                graph_t& ssnap = SG.graph->graph_snapshot("s");
                std::vector<double> ref = run_kernel(ssnap, fs::flow_graph_traversal_dir::breadth_upstream, 1, 0, 0, kin);
                std::vector<std::atomic<int>> per_node(n);
                std::vector<double> got = run_kernel(psnap, fs::flow_graph_traversal_dir::breadth_upstream, snap_threads, 0, snap_min_level, kin, nullptr, &per_node);
                hist.push_back("kernel on snapshot(breadth_upstream, threads=" + std::to_string(snap_threads) + ", min_level=" + std::to_string(snap_min_level) + ")");
                R.count("c10.parallel_kernels_on_snapshots");
                for (std::size_t i = 0; i < n; ++i)
                {
                    if (per_node[i].load() != 1)
                    {
                        R.violation(P, "kernel_not_applied_exactly_once", witness(in, "snapshot graph, node " + std::to_string(i) + " visited " + std::to_string(per_node[i].load()) + " times"));
                        break;
                    }
                    if (bits(got[i]) != bits(ref[i]))
                    {
                        R.violation(P, "parallel_kernel_differs:snapshot", witness(in, "snapshot graph, node " + std::to_string(i) + ": " + jhex(got[i]) + " vs sequential " + jhex(ref[i])));
                        break;
                    }
                }
            }
        }
        clear_delays();
        R.set_case_hash(ch.h);
        R.nontrivial(true);
        R.count("c10.graph_cases");
        if (R.want_sample())
            R.sample(JObj().raw("grid", env.g.json(20)).raw("operators", ops_json(par_ops)).raw("history", jarr(hist, [](const std::string& s) { return jstr(s); })).str());
    }
}

int
main(int argc, char** argv)
{
    Args a = parse_args(argc, argv);
    Runner R(a, "h_conc", grid_name);
    g_runner = &R;
    for (std::size_t i = 0; i < EV_CAP; ++i)
        M.ev[i].store(0, std::memory_order_relaxed);
    for (int i = 0; i < P_N; ++i)
    {
        M.counts[i].store(0);
        M.delay_max_us[i].store(0);
        M.delay_permille[i].store(0);
    }
    reset_detector();
    fs::verif::g_sched.store(&sched_cb);
    const bool thorough = a.tier == "thorough";
    const bool delays = a.geti("delays", 1) != 0;
    M.deadlock_limit_ms.store(a.geti("deadlock_ms", 8000));
    const std::string prop = a.prop;
    std::size_t max_side = a.maxn ? static_cast<std::size_t>(a.maxn) : (thorough ? 48 : 20);
    int repeats = static_cast<int>(a.geti("repeats", thorough ? 4 : 2));
    int rc = run_cases(R,
                       "conc:" + prop,
                       [&](Runner& R_, Rng& rng, long k)
                       {
                           if (prop == "C11")
                           {
                               // mostly the pool driven directly; every 4th case through the library (graph histories)
                               if (k % 4 == 3)
                                   graph_case(R_, rng, delays, max_side / 2 + 4, 1);
                               else
                                   pool_case(R_, rng, delays, thorough ? 5000 : 2000);
                           }
                           else if ((prop == "C03" || prop == "C04" || prop == "C06") && k % 2 == 1)
                               indep_case(R_, rng, prop, max_side);
                           else if (prop == "C10" || prop == "C03" || prop == "C04" || prop == "C06")
                               graph_case(R_, rng, delays, max_side, repeats);
                           else if (prop == "C07" || prop == "C09" || prop == "C12" || prop == "C13" || prop == "C14" || prop == "C01" || prop == "C02"
                                    || prop == "C05" || prop == "C19" || prop == "C17" || prop == "C18")
                               indep_case(R_, rng, prop, max_side);
                           else
                           {
                               if (k % 3 == 2)
                                   indep_case(R_, rng, prop, max_side);
                               else if (k % 2)
                                   graph_case(R_, rng, delays, max_side, repeats);
                               else
                                   pool_case(R_, rng, delays, 2000);
                           }
                           R_.maxc("distinct_event_orders_max", static_cast<long>(g_signatures.size()));
                           for (int i = 0; i < P_N; ++i)
                           {
                               long c = M.counts[i].exchange(0);
                               if (c)
                                   R_.count(std::string("hook.") + pt_names[i], c);
                           }
                           R_.count("delays_injected", M.delays_injected.exchange(0));
                       });
    return rc;
}
