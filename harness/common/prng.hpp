// Deterministic PRNG (xoshiro256**) + own distributions: results do not depend on libstdc++.
#pragma once
#include <cstdint>
#include <cstddef>
#include <cstring>
#include <cmath>
#include <vector>
#include <string>

namespace vf
{
    inline std::uint64_t splitmix64(std::uint64_t& x)
    {
        std::uint64_t z = (x += 0x9e3779b97f4a7c15ULL);
        z = (z ^ (z >> 30)) * 0xbf58476d1ce4e5b9ULL;
        z = (z ^ (z >> 27)) * 0x94d049bb133111ebULL;
        return z ^ (z >> 31);
    }

    inline std::uint64_t fnv1a(const void* data, std::size_t n, std::uint64_t h = 1469598103934665603ULL)
    {
        const unsigned char* p = static_cast<const unsigned char*>(data);
        for (std::size_t i = 0; i < n; ++i)
        {
            h ^= p[i];
            h *= 1099511628211ULL;
        }
        return h;
    }

    inline std::uint64_t hash_str(const std::string& s)
    {
        return fnv1a(s.data(), s.size());
    }

    struct Hasher
    {
        std::uint64_t h = 1469598103934665603ULL;
        template <class T>
        void pod(const T& v)
        {
            h = fnv1a(&v, sizeof(T), h);
        }
        void bytes(const void* p, std::size_t n)
        {
            h = fnv1a(p, n, h);
        }
        template <class T>
        void vec(const std::vector<T>& v)
        {
            std::uint64_t n = v.size();
            pod(n);
            if (n)
                h = fnv1a(v.data(), n * sizeof(T), h);
        }
        void str(const std::string& s)
        {
            std::uint64_t n = s.size();
            pod(n);
            h = fnv1a(s.data(), s.size(), h);
        }
    };

    class Rng
    {
    public:
        Rng(std::uint64_t a, std::uint64_t b = 0, std::uint64_t c = 0, std::uint64_t d = 0)
        {
            std::uint64_t x = a * 0x9e3779b97f4a7c15ULL + 0x1234567ULL;
            x ^= splitmix64(x) + b;
            x ^= splitmix64(x) + (c << 17);
            x ^= splitmix64(x) + (d << 3);
            for (int i = 0; i < 4; ++i)
                s[i] = splitmix64(x);
        }

        // decision stream taken from a byte buffer first (coverage-guided fuzzing: the fuzzer mutates the decisions of the
        // generators, every byte string is a valid case); the generator continues with the PRNG when the buffer is used up
        void set_source(const unsigned char* p, std::size_t n)
        {
            fz = p;
            fz_n = n;
            fz_pos = 0;
        }

        std::uint64_t next()
        {
            if (fz_pos < fz_n)
            {
                std::uint64_t r = 0;
                std::size_t k = fz_n - fz_pos < 8 ? fz_n - fz_pos : 8;
                std::memcpy(&r, fz + fz_pos, k);
                fz_pos += k;
                return r;
            }
            const std::uint64_t result = rotl(s[1] * 5, 7) * 9;
            const std::uint64_t t = s[1] << 17;
            s[2] ^= s[0];
            s[3] ^= s[1];
            s[1] ^= s[2];
            s[0] ^= s[3];
            s[2] ^= t;
            s[3] = rotl(s[3], 45);
            return result;
        }

        // uniform integer in [0, n)
        std::uint64_t below(std::uint64_t n)
        {
            if (n <= 1)
                return 0;
            // rejection-free (bias negligible for our n), but keep it exact with rejection
            std::uint64_t lim = UINT64_MAX - (UINT64_MAX % n);
            std::uint64_t r;
            do
            {
                r = next();
            } while (r >= lim);
            return r % n;
        }

        // integer in [a, b]
        long range(long a, long b)
        {
            return a + static_cast<long>(below(static_cast<std::uint64_t>(b - a + 1)));
        }

        double u01()
        {
            return static_cast<double>(next() >> 11) * (1.0 / 9007199254740992.0);
        }

        double uniform(double a, double b)
        {
            return a + (b - a) * u01();
        }

        bool chance(double p)
        {
            return u01() < p;
        }

        // log-uniform in [a, b], a,b > 0
        double logu(double a, double b)
        {
            return std::exp(uniform(std::log(a), std::log(b)));
        }

        template <class T>
        const T& pick(const std::vector<T>& v)
        {
            return v[below(v.size())];
        }

        template <class T>
        void shuffle(std::vector<T>& v)
        {
            for (std::size_t i = v.size(); i > 1; --i)
            {
                std::size_t j = below(i);
                std::swap(v[i - 1], v[j]);
            }
        }

    private:
        std::uint64_t s[4];
        const unsigned char* fz = nullptr;
        std::size_t fz_n = 0, fz_pos = 0;
        static std::uint64_t rotl(std::uint64_t x, int k)
        {
            return (x << k) | (x >> (64 - k));
        }
    };

    // order-preserving integer image of a double (+0 and -0 identified)
    inline std::int64_t ord(double x)
    {
        std::int64_t i;
        std::memcpy(&i, &x, sizeof(i));
        if (i < 0)
            i = static_cast<std::int64_t>(0x8000000000000000ULL) - i;
        return i;
    }

    // ord(a) - ord(b), saturated (the difference of two order images can exceed the int64 range)
    inline std::int64_t ord_diff(double a, double b)
    {
        __int128 d = static_cast<__int128>(ord(a)) - static_cast<__int128>(ord(b));
        const __int128 mx = static_cast<__int128>(INT64_MAX);
        if (d > mx)
            return INT64_MAX;
        if (d < -mx)
            return -INT64_MAX;
        return static_cast<std::int64_t>(d);
    }

    inline std::uint64_t bits(double x)
    {
        std::uint64_t i;
        std::memcpy(&i, &x, sizeof(i));
        return i;
    }

    inline double ulp_of(double x)
    {
        x = std::fabs(x);
        if (!std::isfinite(x))
            return x;
        double n = std::nextafter(x, INFINITY);
        return n - x;
    }
}
