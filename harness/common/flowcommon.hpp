// Shared by h_flow / h_hist / h_erode / h_conc: run-time operator sequences (friend factory, as the
// Python bindings do), graph-state extraction, elevation / mask / base-level generators.
#pragma once
#include <memory>
#include <queue>
#include <string>
#include <variant>
#include <atomic>
#include <vector>

#include "gridkinds.hpp"

#include "fastscapelib/flow/flow_graph.hpp"
#include "fastscapelib/flow/flow_router.hpp"
#include "fastscapelib/flow/sink_resolver.hpp"
#include "fastscapelib/flow/flow_snapshot.hpp"
#include "fastscapelib/flow/basin_graph.hpp"

namespace vf
{
    using op_var = std::variant<std::shared_ptr<fs::single_flow_router>,
                                std::shared_ptr<fs::multi_flow_router>,
                                std::shared_ptr<fs::pflood_sink_resolver>,
                                std::shared_ptr<fs::mst_sink_resolver>,
                                std::shared_ptr<fs::flow_snapshot>>;
}

namespace fastscapelib
{
    // The operator sequence class declares this function template as a friend ("only for bindings");
    // the Python bindings define it to build a sequence at run time from shared operator pointers.
    // The harness defines it the same way.
    template <class FG, class OPs>
    flow_operator_sequence<FG> make_flow_operator_sequence(OPs&& ops)
    {
        flow_operator_sequence<FG> seq;
        for (auto& op : ops)
        {
            std::visit(
                [&seq](auto& ptr)
                {
                    using ptr_t = std::decay_t<decltype(ptr)>;
                    seq.add_operator(ptr_t(ptr));
                },
                op);
        }
        return seq;
    }
}

namespace vf
{
    using graph_t = fs::flow_graph<grid_t>;
    using impl_t = graph_t::impl_type;
    using arr_t = graph_t::data_array_type;  // xt::xarray<double>
    using sarr_t = graph_t::data_array_size_type;

    enum class OpKind
    {
        single,
        single_par,
        multi,
        pflood,
        mst,
        snap
    };

    struct OpSpec
    {
        OpKind kind = OpKind::single;
        int threads = 0;
        double p = 1.0;
        fs::mst_method bm = fs::mst_method::kruskal;
        fs::mst_route_method rm = fs::mst_route_method::carve;
        std::string name;
        bool save_graph = true, save_elev = false;

        std::string label() const
        {
            switch (kind)
            {
                case OpKind::single:
                    return "single";
                case OpKind::single_par:
                    return "single_par(" + std::to_string(threads) + ")";
                case OpKind::multi:
                    return "multi(" + jnum(p) + ")";
                case OpKind::pflood:
                    return "pflood";
                case OpKind::mst:
                    return std::string("mst(") + (bm == fs::mst_method::kruskal ? "kruskal" : "boruvka") + ","
                           + (rm == fs::mst_route_method::basic ? "basic" : "carve") + ")";
                case OpKind::snap:
                    return std::string("snapshot(") + name + (save_graph ? ",graph" : "") + (save_elev ? ",elev" : "") + ")";
            }
            return "?";
        }
        void hash_into(Hasher& h) const
        {
            h.pod(kind);
            h.pod(threads);
            h.pod(p);
            h.pod(bm);
            h.pod(rm);
            h.str(name);
            h.pod(save_graph);
            h.pod(save_elev);
        }
    };

    inline std::string ops_label(const std::vector<OpSpec>& ops)
    {
        std::string s;
        for (auto& o : ops)
            s += (s.empty() ? "" : ">") + o.label();
        return s;
    }

    inline std::string ops_json(const std::vector<OpSpec>& ops)
    {
        return jarr(ops, [](const OpSpec& o) { return jstr(o.label()); });
    }

    inline OpSpec op_single()
    {
        OpSpec o;
        o.kind = OpKind::single;
        return o;
    }
    inline OpSpec op_single_par(int t)
    {
        OpSpec o;
        o.kind = OpKind::single_par;
        o.threads = t;
        return o;
    }
    inline OpSpec op_multi(double p)
    {
        OpSpec o;
        o.kind = OpKind::multi;
        o.p = p;
        return o;
    }
    inline OpSpec op_pflood()
    {
        OpSpec o;
        o.kind = OpKind::pflood;
        return o;
    }
    inline OpSpec op_mst(fs::mst_method bm, fs::mst_route_method rm)
    {
        OpSpec o;
        o.kind = OpKind::mst;
        o.bm = bm;
        o.rm = rm;
        return o;
    }
    inline OpSpec op_snap(const std::string& name, bool g, bool e)
    {
        OpSpec o;
        o.kind = OpKind::snap;
        o.name = name;
        o.save_graph = g;
        o.save_elev = e;
        return o;
    }

    inline op_var make_op(const OpSpec& o)
    {
        switch (o.kind)
        {
            case OpKind::single:
                return std::make_shared<fs::single_flow_router>();
            case OpKind::single_par:
                return std::make_shared<fs::single_flow_router>(o.threads);
            case OpKind::multi:
                return std::make_shared<fs::multi_flow_router>(o.p);
            case OpKind::pflood:
                return std::make_shared<fs::pflood_sink_resolver>();
            case OpKind::mst:
                return std::make_shared<fs::mst_sink_resolver>(o.bm, o.rm);
            case OpKind::snap:
                return std::make_shared<fs::flow_snapshot>(o.name, o.save_graph, o.save_elev);
        }
        throw std::logic_error("bad op");
    }

    struct GraphBundle
    {
        std::vector<OpSpec> specs;
        std::vector<op_var> ops;  // shared with the graph: parameters stay mutable, as in Python
        std::unique_ptr<graph_t> graph;

        fs::multi_flow_router* multi(std::size_t i)
        {
            return std::get<std::shared_ptr<fs::multi_flow_router>>(ops[i]).get();
        }
        fs::mst_sink_resolver* mst(std::size_t i)
        {
            return std::get<std::shared_ptr<fs::mst_sink_resolver>>(ops[i]).get();
        }
    };

    // may throw (invalid sequences are rejected by the library)
    inline GraphBundle build_graph(grid_t& grid, const std::vector<OpSpec>& specs)
    {
        GraphBundle b;
        b.specs = specs;
        for (auto& s : specs)
            b.ops.push_back(make_op(s));
        b.graph = std::make_unique<graph_t>(grid, fs::make_flow_operator_sequence<impl_t>(b.ops));
        return b;
    }

    // operator sequences are movable values: a sequence object that held another (valid) sequence and is then assigned this one
    // must build the same graph as a sequence created directly
    inline GraphBundle build_graph_via_reassigned_sequence(grid_t& grid, const std::vector<OpSpec>& specs, const std::vector<OpSpec>& previous)
    {
        GraphBundle b;
        b.specs = specs;
        for (auto& s : specs)
            b.ops.push_back(make_op(s));
        std::vector<op_var> prev_ops;
        for (auto& s : previous)
            prev_ops.push_back(make_op(s));
        auto seq = fs::make_flow_operator_sequence<impl_t>(prev_ops);
        seq = fs::make_flow_operator_sequence<impl_t>(b.ops);
        b.graph = std::make_unique<graph_t>(grid, std::move(seq));
        return b;
    }

    // a second graph built from the *same* operator objects (an operator object may be handed to several graphs; whatever
    // an operator needs to remember between updates belongs to the graph that runs it)
    inline GraphBundle build_graph_sharing_operators(grid_t& grid, const GraphBundle& other)
    {
        GraphBundle b;
        b.specs = other.specs;
        b.ops = other.ops;
        b.graph = std::make_unique<graph_t>(grid, fs::make_flow_operator_sequence<impl_t>(b.ops));
        return b;
    }

    // ------------------------------------------------------------------ arrays
    inline std::vector<std::size_t> grid_shape_vec(const GridSpec& g)
    {
        if (family == Family::raster)
            return { g.rows, g.cols };
        return { g.size() };
    }

    inline arr_t to_arr(const GridSpec& g, const std::vector<double>& flat)
    {
        arr_t a = arr_t::from_shape(grid_shape_vec(g));
        for (std::size_t i = 0; i < flat.size(); ++i)
            a.flat(i) = flat[i];
        return a;
    }

    inline xt::xarray<bool> to_mask(const GridSpec& g, const std::vector<std::uint8_t>& m)
    {
        xt::xarray<bool> a = xt::xarray<bool>::from_shape(grid_shape_vec(g));
        for (std::size_t i = 0; i < m.size(); ++i)
            a.flat(i) = m[i] != 0;
        return a;
    }

    // a shape that does not match the grid (one more row / node; for rasters sometimes the transposed shape, which has the
    // right number of elements): setters documented to refuse it must leave the object as it was
    template <class RNG>
    inline std::vector<std::size_t> mismatched_shape(const GridSpec& g, RNG& rng)
    {
        auto sh = grid_shape_vec(g);
        if (sh.size() == 2 && sh[0] != sh[1] && rng.chance(0.5))
            std::swap(sh[0], sh[1]);
        else if (rng.chance(0.5) && sh[0] > 1)
            sh[0] -= 1;
        else
            sh[0] += 1;
        return sh;
    }

    template <class A>
    inline std::vector<typename A::value_type> flat_vec(const A& a)
    {
        std::vector<typename A::value_type> v(a.size());
        for (std::size_t i = 0; i < v.size(); ++i)
            v[i] = a.flat(i);
        return v;
    }

    // ------------------------------------------------------------------ graph state (copied out of the public tables)
    struct GState
    {
        std::size_t n = 0, W = 0, DW = 0;
        std::vector<std::size_t> rec, rec_count, don, don_count, dfs, bfs, levels;
        std::vector<double> rdist, rweight;
        bool shapes_ok = true;
        std::string shape_problem;

        std::size_t r(std::size_t i, std::size_t k) const
        {
            return rec[i * W + k];
        }
        double rd(std::size_t i, std::size_t k) const
        {
            return rdist[i * W + k];
        }
        double rw(std::size_t i, std::size_t k) const
        {
            return rweight[i * W + k];
        }
        std::size_t d(std::size_t i, std::size_t k) const
        {
            return don[i * DW + k];
        }
        bool self_only(std::size_t i) const
        {
            return rec_count[i] == 1 && r(i, 0) == i;
        }
    };

    inline GState extract(const impl_t& I)
    {
        GState S;
        S.n = I.size();
        auto& R = I.receivers();
        auto& RD = I.receivers_distance();
        auto& RW = I.receivers_weight();
        auto& D = I.donors();
        auto bad = [&](const std::string& s)
        {
            S.shapes_ok = false;
            S.shape_problem = s;
        };
        if (R.dimension() != 2 || R.shape()[0] != S.n)
            bad("receivers shape");
        S.W = R.shape()[1];
        if (RD.shape()[0] != S.n || RD.shape()[1] != S.W || RW.shape()[0] != S.n || RW.shape()[1] != S.W)
            bad("receivers_distance / weight shape");
        if (D.shape()[0] != S.n)
            bad("donors shape");
        S.DW = D.shape()[1];
        if (I.receivers_count().size() != S.n || I.donors_count().size() != S.n)
            bad("count shapes");
        if (I.dfs_indices().size() != S.n || I.bfs_indices().size() != S.n)
            bad("traversal order shapes");
        if (!S.shapes_ok)
            return S;
        S.rec.resize(S.n * S.W);
        S.rdist.resize(S.n * S.W);
        S.rweight.resize(S.n * S.W);
        S.don.resize(S.n * S.DW);
        S.rec_count.resize(S.n);
        S.don_count.resize(S.n);
        S.dfs.resize(S.n);
        S.bfs.resize(S.n);
        for (std::size_t i = 0; i < S.n; ++i)
        {
            for (std::size_t k = 0; k < S.W; ++k)
            {
                S.rec[i * S.W + k] = R(i, k);
                S.rdist[i * S.W + k] = RD(i, k);
                S.rweight[i * S.W + k] = RW(i, k);
            }
            for (std::size_t k = 0; k < S.DW; ++k)
                S.don[i * S.DW + k] = D(i, k);
            S.rec_count[i] = I.receivers_count()(i);
            S.don_count[i] = I.donors_count()(i);
            S.dfs[i] = I.dfs_indices()(i);
            S.bfs[i] = I.bfs_indices()(i);
        }
        S.levels.resize(I.bfs_levels().size());
        for (std::size_t i = 0; i < S.levels.size(); ++i)
            S.levels[i] = I.bfs_levels()(i);
        return S;
    }


    // ------------------------------------------------------------------ C06 invariants over an extracted state
    struct C06Stats
    {
        long edges = 0;
        long levels = 0;
        bool multi_donor = false;
    };

    // returns (key, detail) for every violated clause (first violation per clause)
    inline std::vector<std::pair<std::string, std::string>> c06_violations(const GState& S, C06Stats& st)
    {
        std::vector<std::pair<std::string, std::string>> out;
        const std::size_t n = S.n;
        auto fail = [&](const std::string& k, const std::string& d) { out.push_back({ k, d }); };
        for (std::size_t i = 0; i < n; ++i)
        {
            if (S.rec_count[i] > S.W || S.rec_count[i] == 0)
            {
                fail("receivers_count_range", "node " + std::to_string(i) + " receivers_count=" + std::to_string(S.rec_count[i]) + " width=" + std::to_string(S.W));
                return out;
            }
            if (S.don_count[i] > S.DW)
            {
                fail("donors_count_range", "node " + std::to_string(i) + " donors_count=" + std::to_string(S.don_count[i]) + " width=" + std::to_string(S.DW));
                return out;
            }
            for (std::size_t k = 0; k < S.rec_count[i]; ++k)
                if (S.r(i, k) >= n)
                {
                    fail("receiver_index_range", "node " + std::to_string(i));
                    return out;
                }
            for (std::size_t k = 0; k < S.don_count[i]; ++k)
                if (S.d(i, k) >= n)
                {
                    fail("donor_index_range", "node " + std::to_string(i));
                    return out;
                }
        }
        // donors = inverse of receivers for distinct nodes, with multiplicity
        std::vector<std::vector<std::size_t>> inv(n);
        for (std::size_t i = 0; i < n; ++i)
            for (std::size_t k = 0; k < S.rec_count[i]; ++k)
                if (S.r(i, k) != i)
                    inv[S.r(i, k)].push_back(i);
        for (std::size_t i = 0; i < n; ++i)
        {
            std::vector<std::size_t> d;
            for (std::size_t k = 0; k < S.don_count[i]; ++k)
                if (S.d(i, k) != i)
                    d.push_back(S.d(i, k));
            std::sort(d.begin(), d.end());
            std::sort(inv[i].begin(), inv[i].end());
            st.edges += static_cast<long>(d.size());
            st.multi_donor = st.multi_donor || d.size() >= 2;
            if (d != inv[i])
            {
                fail("donors_not_inverse", "node " + std::to_string(i) + " donors(distinct)=" + jarr_int(d) + " inverse of receivers=" + jarr_int(inv[i]));
                break;
            }
        }
        auto perm_check = [&](const std::vector<std::size_t>& ord, const char* name, std::vector<std::size_t>& pos)
        {
            pos.assign(n, SIZE_MAX);
            for (std::size_t k = 0; k < ord.size(); ++k)
            {
                if (ord[k] >= n || pos[ord[k]] != SIZE_MAX)
                {
                    fail(std::string(name) + "_not_permutation", "position " + std::to_string(k) + " holds " + std::to_string(ord[k]));
                    return false;
                }
                pos[ord[k]] = k;
            }
            return ord.size() == n;
        };
        std::vector<std::size_t> pos;
        if (perm_check(S.dfs, "dfs", pos))
        {
            for (std::size_t i = 0; i < n; ++i)
                for (std::size_t k = 0; k < S.rec_count[i]; ++k)
                {
                    std::size_t r = S.r(i, k);
                    if (r != i && pos[r] >= pos[i])
                    {
                        fail("dfs_order", "node " + std::to_string(i) + " (pos " + std::to_string(pos[i]) + ") before its receiver " + std::to_string(r) + " (pos " + std::to_string(pos[r]) + ")");
                        i = n;
                        break;
                    }
                }
        }
        if (perm_check(S.bfs, "bfs", pos))
        {
            bool ok = S.levels.size() >= 2 && S.levels.front() == 0 && S.levels.back() == n;
            for (std::size_t l = 1; ok && l < S.levels.size(); ++l)
                ok = S.levels[l] > S.levels[l - 1];
            if (!ok)
                fail("bfs_levels", "bfs_levels=" + jarr_int(S.levels, 60));
            else
            {
                std::vector<std::size_t> level_of(n, 0);
                for (std::size_t l = 0; l + 1 < S.levels.size(); ++l)
                    for (std::size_t k = S.levels[l]; k < S.levels[l + 1]; ++k)
                        level_of[S.bfs[k]] = l;
                for (std::size_t i = 0; i < n; ++i)
                    for (std::size_t k = 0; k < S.rec_count[i]; ++k)
                    {
                        std::size_t r = S.r(i, k);
                        if (r != i && level_of[r] >= level_of[i])
                        {
                            fail("bfs_order", "node " + std::to_string(i) + " level " + std::to_string(level_of[i]) + " receiver " + std::to_string(r) + " level " + std::to_string(level_of[r]));
                            i = n;
                            break;
                        }
                    }
                st.levels = static_cast<long>(S.levels.size()) - 1;
            }
        }
        return out;
    }

    // ------------------------------------------------------------------ elevation fields
    constexpr int n_field_classes = 10;
    inline const char* field_class_name(int c)
    {
        static const char* names[] = { "uniform", "ties", "flat", "plane_pits", "nested", "tiny", "large", "pattern", "ramp", "plateau_steps" };
        return names[c];
    }

    inline std::vector<std::size_t> bfs_hops(const RefGeom& R, const std::vector<std::size_t>& seeds)
    {
        std::vector<std::size_t> hop(R.n, SIZE_MAX);
        std::queue<std::size_t> q;
        for (auto s : seeds)
            if (s < R.n && hop[s] == SIZE_MAX)
            {
                hop[s] = 0;
                q.push(s);
            }
        while (!q.empty())
        {
            auto i = q.front();
            q.pop();
            for (auto& nb : R.adj[i])
                if (hop[nb.idx] == SIZE_MAX)
                {
                    hop[nb.idx] = hop[i] + 1;
                    q.push(nb.idx);
                }
        }
        return hop;
    }

    inline std::vector<double> gen_field(Rng& rng, const RefGeom& R, int cls)
    {
        const std::size_t n = R.n;
        std::vector<double> z(n, 0.0);
        double ymax = 1e-300, xmax = 1e-300;
        for (auto& p : R.xy)
        {
            ymax = std::max(ymax, std::fabs(p[0]));
            xmax = std::max(xmax, std::fabs(p[1]));
        }
        const double ext = std::max(ymax, xmax);
        switch (cls)
        {
            case 0:  // uniform reals
            {
                double scale = rng.pick(std::vector<double>{ 1.0, 100.0, 1e-3, 1e4 });
                double off = rng.chance(0.3) ? -scale * rng.u01() : 0.0;
                for (auto& v : z)
                    v = off + scale * rng.u01();
                break;
            }
            case 1:  // small integers: plateaus and equal passes
            {
                long k = rng.pick(std::vector<long>{ 1, 2, 3, 5, 9 });
                long off = rng.chance(0.3) ? -rng.range(0, 4) : 0;
                double unit = rng.chance(0.2) ? 0.125 : 1.0;
                for (auto& v : z)
                    v = unit * static_cast<double>(off + rng.range(0, k));
                break;
            }
            case 2:  // constant
            {
                double c = rng.pick(std::vector<double>{ 0.0, -0.0, 1.0, -3.5, 1e-300, 100.0, 5e-324, -2.0 });
                for (auto& v : z)
                    v = c;
                break;
            }
            case 3:  // tilted plane + random single-node and multi-node depressions
            {
                double a = rng.uniform(-1, 1), b = rng.uniform(-1, 1), c = rng.uniform(0, 10);
                double noise = rng.chance(0.5) ? 0.0 : rng.logu(1e-6, 0.05);
                for (std::size_t i = 0; i < n; ++i)
                    z[i] = c + (a * R.xy[i][0] + b * R.xy[i][1]) / ext * 5.0 + noise * rng.u01();
                long npits = rng.range(1, 1 + static_cast<long>(n / 12));
                for (long k = 0; k < npits; ++k)
                {
                    std::size_t ctr = rng.below(n);
                    double depth = rng.uniform(0.1, 3.0);
                    z[ctr] -= depth;
                    if (rng.chance(0.5))
                        for (auto& nb : R.adj[ctr])
                            if (rng.chance(0.6))
                                z[nb.idx] -= depth * rng.uniform(0.3, 1.0);
                }
                break;
            }
            case 4:  // nested multi-scale bowls, optionally quantised (equal-height saddles)
            {
                for (std::size_t i = 0; i < n; ++i)
                    z[i] = 10.0 + rng.uniform(0, 0.01);
                long nb = rng.range(2, 7);
                double radius = ext * rng.uniform(0.3, 0.8);
                std::size_t ctr = rng.below(n);
                for (long k = 0; k < nb; ++k)
                {
                    double depth = rng.uniform(0.5, 3.0);
                    for (std::size_t i = 0; i < n; ++i)
                    {
                        double dy = R.xy[i][0] - R.xy[ctr][0], dx = R.xy[i][1] - R.xy[ctr][1];
                        double d = std::sqrt(dy * dy + dx * dx);
                        if (d < radius)
                            z[i] -= depth * (1.0 - d / radius);
                    }
                    // next bowl: inside the previous one (nested) or elsewhere (adjacent)
                    if (rng.chance(0.6))
                    {
                        std::vector<std::size_t> inside;
                        for (std::size_t i = 0; i < n; ++i)
                        {
                            double dy = R.xy[i][0] - R.xy[ctr][0], dx = R.xy[i][1] - R.xy[ctr][1];
                            if (std::sqrt(dy * dy + dx * dx) < radius)
                                inside.push_back(i);
                        }
                        if (!inside.empty())
                            ctr = rng.pick(inside);
                        radius *= rng.uniform(0.4, 0.8);
                    }
                    else
                    {
                        ctr = rng.below(n);
                        radius = ext * rng.uniform(0.15, 0.6);
                    }
                }
                if (rng.chance(0.5))
                {
                    double q = rng.pick(std::vector<double>{ 0.25, 0.5, 1.0 });
                    for (auto& v : z)
                        v = std::round(v / q) * q;
                }
                break;
            }
            case 5:  // signed multiples of the smallest subnormal / tiny values
            {
                double unit = rng.pick(std::vector<double>{ 5e-324, 5e-324, 1e-310, 2.2250738585072014e-308 });
                long k = rng.pick(std::vector<long>{ 1, 3, 8 });
                long off = rng.chance(0.5) ? -rng.range(0, k) : 0;
                for (auto& v : z)
                    v = unit * static_cast<double>(off + rng.range(0, k));
                break;
            }
            case 6:  // large magnitudes with 1-ulp differences
            {
                double base = rng.logu(1e6, 1e12);
                if (rng.chance(0.3))
                    base = -base;
                long k = rng.pick(std::vector<long>{ 2, 4, 16 });
                for (auto& v : z)
                {
                    double x = base;
                    long steps = rng.range(0, k);
                    for (long s = 0; s < steps; ++s)
                        x = std::nextafter(x, INFINITY);
                    v = x;
                }
                break;
            }
            case 7:  // checkerboards, stripes, diagonal weaves (many small basins, dense basin graphs)
            {
                long mode = rng.range(0, 4);
                double amp = rng.pick(std::vector<double>{ 1.0, 1.0, 0.5, 3.0 });
                double noise = rng.chance(0.6) ? 0.0 : 1e-3;
                long m = rng.range(2, 4);
                for (std::size_t i = 0; i < n; ++i)
                {
                    long r, c;
                    if (family == Family::mesh)
                    {
                        r = static_cast<long>(std::floor(R.xy[i][0] / (ymax > 0 ? ymax : 1) * 7.0 + 0.5));
                        c = static_cast<long>(std::floor(R.xy[i][1] / (xmax > 0 ? xmax : 1) * 7.0 + 0.5));
                    }
                    else
                    {
                        // recover lattice coordinates from the reference coordinates
                        r = 0;
                        c = static_cast<long>(i);
                    }
                    long v = 0;
                    switch (mode)
                    {
                        case 0:
                            v = (r + c) % 2;
                            break;
                        case 1:
                            v = c % m;
                            break;
                        case 2:
                            v = (r + 2 * c) % 4;
                            break;
                        case 3:
                            v = (c % m == 0) ? 0 : 1;
                            break;
                        default:
                            v = ((r % 2) + (c % 3)) % 2;
                            break;
                    }
                    z[i] = amp * static_cast<double>(v) + noise * rng.u01();
                }
                break;
            }
            case 8:  // ramp towards random seed nodes (interior outlets) or away from them (bowl)
            {
                std::vector<std::size_t> seeds;
                long ns = rng.range(1, 3);
                for (long k = 0; k < ns; ++k)
                    seeds.push_back(rng.below(n));
                auto hop = bfs_hops(R, seeds);
                double step = rng.pick(std::vector<double>{ 1.0, 0.1, 1e-3 });
                bool inv = rng.chance(0.3);
                double noise = rng.chance(0.5) ? 0.0 : step * 0.3;
                for (std::size_t i = 0; i < n; ++i)
                {
                    double h = hop[i] == SIZE_MAX ? 50.0 : static_cast<double>(hop[i]);
                    z[i] = (inv ? -h : h) * step + noise * rng.u01();
                }
                break;
            }
            default:  // plateau steps: a few large terraces with exactly equal heights + isolated bumps
            {
                long nt = rng.range(2, 4);
                double base = rng.chance(0.3) ? 0.0 : rng.uniform(-2, 2);
                for (std::size_t i = 0; i < n; ++i)
                {
                    double t = (R.xy[i][0] / ext + R.xy[i][1] / ext) / 2.0;
                    z[i] = base + std::floor(t * static_cast<double>(nt));
                }
                long nb = rng.range(0, 1 + static_cast<long>(n / 10));
                for (long k = 0; k < nb; ++k)
                    z[rng.below(n)] += rng.chance(0.5) ? 1.0 : -1.0;
                break;
            }
        }
        return z;
    }

    // structured grids: lattice coordinates for the pattern class need rows/cols, which RefGeom does
    // not carry; this wrapper patches the pattern class with the real lattice coordinates.
    inline std::vector<double> gen_field_spec(Rng& rng, const GridSpec& g, const RefGeom& R, int cls)
    {
        if (cls != 7 || family == Family::mesh)
            return gen_field(rng, R, cls);
        std::vector<double> z(R.n);
        long mode = rng.range(0, 4);
        double amp = rng.pick(std::vector<double>{ 1.0, 1.0, 0.5, 3.0 });
        double noise = rng.chance(0.6) ? 0.0 : 1e-3;
        long m = rng.range(2, 4);
        for (std::size_t i = 0; i < R.n; ++i)
        {
            long r = static_cast<long>(i / g.cols), c = static_cast<long>(i % g.cols);
            long v = 0;
            switch (mode)
            {
                case 0:
                    v = (r + c) % 2;
                    break;
                case 1:
                    v = c % m;
                    break;
                case 2:
                    v = (r + 2 * c) % 4;
                    break;
                case 3:
                    v = (c % m == 0 || r % m == 0) ? 1 : 0;
                    break;
                default:
                    v = ((r % 2) + (c % 3)) % 2;
                    break;
            }
            z[i] = amp * static_cast<double>(v) + noise * rng.u01();
        }
        return z;
    }

    // ------------------------------------------------------------------ masks and base levels
    inline std::vector<std::uint8_t> gen_mask(Rng& rng, const GridSpec& g, const RefGeom& R, std::string& cls)
    {
        const std::size_t n = R.n;
        std::vector<std::uint8_t> m(n, 0);
        double u = rng.u01();
        if (u < 0.45)
        {
            cls = "none";
            return {};
        }
        if (u < 0.6)
        {
            cls = "bernoulli_0.05";
            for (auto& v : m)
                v = rng.chance(0.05);
        }
        else if (u < 0.75)
        {
            cls = "bernoulli_0.3";
            for (auto& v : m)
                v = rng.chance(0.3);
        }
        else if (u < 0.9)
        {
            cls = "wall";
            // mask a band of nodes (a row / column / coordinate band), optionally with a gap
            bool along_y = family == Family::raster ? rng.chance(0.5) : false;
            double lo = 1e300, hi = -1e300;
            for (auto& p : R.xy)
            {
                lo = std::min(lo, p[along_y ? 0 : 1]);
                hi = std::max(hi, p[along_y ? 0 : 1]);
            }
            double pos = rng.uniform(lo, hi);
            double half = (hi - lo) / std::max<double>(2.0, static_cast<double>(along_y ? g.rows : (family == Family::mesh ? 8 : g.cols))) * 0.51;
            bool gap = rng.chance(0.3);
            for (std::size_t i = 0; i < n; ++i)
                if (std::fabs(R.xy[i][along_y ? 0 : 1] - pos) <= half && !(gap && rng.chance(0.2)))
                    m[i] = 1;
        }
        else
        {
            cls = "ring";
            // mask the whole neighbourhood of a random node (encloses it)
            std::size_t c = rng.below(n);
            for (auto& nb : R.adj[c])
                m[nb.idx] = 1;
            if (rng.chance(0.5))
            {
                // a second, larger ring: neighbours of neighbours not adjacent to c
                std::size_t c2 = rng.below(n);
                auto hop = bfs_hops(R, { c2 });
                for (std::size_t i = 0; i < n; ++i)
                    if (hop[i] == 2)
                        m[i] = 1;
            }
        }
        return m;
    }

    // base_levels: returns true when a custom set was produced (otherwise the default set, i.e. the
    // fixed value nodes, is used)
    inline bool gen_base_levels(Rng& rng, const RefGeom& R, std::vector<std::size_t>& bl, std::string& cls)
    {
        const std::size_t n = R.n;
        std::vector<std::size_t> dflt;
        for (std::size_t i = 0; i < n; ++i)
            if (R.status[i] == NS::fixed_value)
                dflt.push_back(i);
        double u = rng.u01();
        bl.clear();
        if (u < 0.5 && !dflt.empty())
        {
            cls = "default";
            bl = dflt;
            return false;
        }
        if (u < 0.65)
        {
            cls = "single_node";
            bl.push_back(rng.below(n));
        }
        else if (u < 0.85 || dflt.empty())
        {
            cls = "random_subset";
            long k = rng.range(1, 1 + static_cast<long>(n / 8));
            for (long j = 0; j < k; ++j)
                bl.push_back(rng.below(n));
        }
        else
        {
            cls = "partial_border";
            for (auto i : dflt)
                if (rng.chance(0.4))
                    bl.push_back(i);
            if (bl.empty())
                bl.push_back(rng.pick(dflt));
        }
        // random order, duplicates allowed (set semantics)
        rng.shuffle(bl);
        return true;
    }

    // graph inputs of one update
    struct FlowInputs
    {
        std::vector<double> z;
        std::vector<std::uint8_t> mask;  // empty: never set
        bool custom_bl = false;
        std::vector<std::size_t> bl;  // effective base levels (sorted unique) whatever custom_bl says
        std::string field_cls, mask_cls, bl_cls;

        bool masked(std::size_t i) const
        {
            return !mask.empty() && mask[i];
        }
    };

    inline std::vector<std::size_t> sorted_unique(std::vector<std::size_t> v)
    {
        std::sort(v.begin(), v.end());
        v.erase(std::unique(v.begin(), v.end()), v.end());
        return v;
    }

    // make sure there is at least one unmasked base level overall (the documented domain of
    // routing); when `no_masked_bl` is set, masked base levels are removed (C01/C02 do not
    // define them)
    inline void fix_domain(Rng& rng, const RefGeom& R, FlowInputs& in, bool no_masked_bl)
    {
        const std::size_t n = R.n;
        if (!in.mask.empty())
        {
            bool all = true;
            for (auto v : in.mask)
                all = all && v;
            if (all)
                in.mask[rng.below(n)] = 0;
        }
        std::vector<std::size_t> eff = sorted_unique(in.bl);
        if (no_masked_bl && !in.mask.empty())
        {
            std::vector<std::size_t> keep;
            for (auto b : eff)
            {
                if (!in.mask[b])
                    keep.push_back(b);
                else if (rng.chance(0.5))
                {
                    in.mask[b] = 0;
                    keep.push_back(b);
                }
                else
                    in.custom_bl = true;  // dropped from the set
            }
            eff = keep;
        }
        bool any = false;
        for (auto b : eff)
            any = any || !in.masked(b);
        if (!any)
        {
            std::vector<std::size_t> cand;
            for (std::size_t i = 0; i < n; ++i)
                if (!in.masked(i))
                    cand.push_back(i);
            eff.push_back(rng.pick(cand));
            eff = sorted_unique(eff);
            in.custom_bl = true;
        }
        in.bl = eff;
    }

    // masks exist to hide cells without data: whatever value is stored under the mask must not matter. Overwrites the masked
    // entries of an array that is about to be handed to the library; returns the number of entries written
    inline double pick_nodata(Rng& rng)
    {
        return rng.pick(std::vector<double>{ -9999.0, -3.4e38, -1e300, 1e300, std::numeric_limits<double>::quiet_NaN(),
                                             std::numeric_limits<double>::infinity(), -std::numeric_limits<double>::infinity(), 0.0 });
    }

    inline std::size_t write_nodata_under_mask(double nodata, const std::vector<std::uint8_t>& mask, arr_t& a)
    {
        std::size_t k = 0;
        for (std::size_t i = 0; i < mask.size(); ++i)
            if (mask[i])
            {
                a.flat(i) = nodata;
                ++k;
            }
        return k;
    }

    inline std::size_t write_nodata_under_mask(Rng& rng, const std::vector<std::uint8_t>& mask, arr_t& a)
    {
        if (mask.empty())
            return 0;
        return write_nodata_under_mask(pick_nodata(rng), mask, a);
    }

    inline void apply_inputs(graph_t& graph, const GridSpec& g, const FlowInputs& in, Rng* shuffle_rng = nullptr)
    {
        // the two setters are independent requests: the state in force is (last mask, last base-level set) whatever the order
        // in which they were given. The order is drawn from the inputs themselves (so that a replay issues the same calls).
        std::uint64_t par = in.bl.size();
        for (auto b : in.bl)
            par += b;
        for (std::size_t i = 0; i < in.mask.size(); ++i)
            par += in.mask[i] ? i + 1 : 0;
        const bool mask_first = ((par * 0x9E3779B97F4A7C15ull) >> 40) & 1;
        if (mask_first && !in.mask.empty())
            graph.set_mask(to_mask(g, in.mask));
        if (in.custom_bl)
        {
            std::vector<std::size_t> v = in.bl;
            if (shuffle_rng)
                shuffle_rng->shuffle(v);
            graph.set_base_levels(v);
        }
        if (!mask_first && !in.mask.empty())
            graph.set_mask(to_mask(g, in.mask));
    }

    inline std::string inputs_json(const FlowInputs& in, std::size_t maxn = 200)
    {
        JObj o;
        o.s("field_class", in.field_cls).s("mask_class", in.mask_cls).s("base_level_class", in.bl_cls);
        o.raw("elevation_hex", jarr(
                                   in.z, [](double x) { return jhex(x); }, maxn));
        o.raw("elevation", jarr_num(in.z, maxn));
        o.raw("mask", jarr_int(in.mask, maxn));
        o.b("custom_base_levels", in.custom_bl);
        o.raw("base_levels", jarr_int(in.bl, maxn));
        return o.str();
    }

    inline void hash_inputs(Hasher& h, const FlowInputs& in)
    {
        h.vec(in.z);
        h.vec(in.mask);
        h.pod(in.custom_bl);
        h.vec(in.bl);
    }

    // reachability: unmasked nodes connected through unmasked adj to an unmasked base level
    inline std::vector<char> drains_possible(const RefGeom& R, const FlowInputs& in)
    {
        std::vector<char> ok(R.n, 0);
        std::queue<std::size_t> q;
        for (auto b : in.bl)
            if (!in.masked(b) && !ok[b])
            {
                ok[b] = 1;
                q.push(b);
            }
        while (!q.empty())
        {
            auto i = q.front();
            q.pop();
            for (auto& nb : R.adj[i])
                if (!ok[nb.idx] && !in.masked(nb.idx))
                {
                    ok[nb.idx] = 1;
                    q.push(nb.idx);
                }
        }
        return ok;
    }
}

// ---------------------------------------------------------------------- C++ flow kernels (for C10 / C16)
#include "fastscapelib/flow/flow_kernel.hpp"

namespace vf
{
    struct KData
    {
        const impl_t* impl = nullptr;
        std::vector<double>* out = nullptr;
        const std::vector<double>* in = nullptr;
        std::atomic<long>* calls = nullptr;  // number of kernel function calls (exactly-once monitor)
        std::vector<std::atomic<int>>* per_node_calls = nullptr;
    };

    struct KNode
    {
        std::size_t idx = 0;
        double val = 0;
        double aux = 0;
    };

    // order-dependent kernel (breadth_upstream / depth_upstream): weighted flow-path length to the
    // outlet, len(i) = sum_k w_k (len(rec_k) + dist_k), 0 at self-receivers. Reads the outputs of
    // the receivers: correct only if every receiver was processed before (C06 conditions).
    // order-independent kernel ("any"): out(i) = 2 in(i) + 1.
    inline fs::detail::flow_kernel make_kernel(fs::flow_graph_traversal_dir dir, int n_threads, int min_block, int min_level)
    {
        fs::detail::flow_kernel k;
        const bool local = dir == fs::flow_graph_traversal_dir::any;
        k.node_data_create = []() -> void* { return new KNode(); };
        k.node_data_free = [](void* p) { delete static_cast<KNode*>(p); };
        k.node_data_init = [](void* p, void*) { static_cast<KNode*>(p)->aux = 1.0; };
        k.node_data_getter = [local](std::size_t idx, void* data, void* nd) -> int
        {
            auto* D = static_cast<KData*>(data);
            auto* N = static_cast<KNode*>(nd);
            N->idx = idx;
            if (local)
            {
                N->val = (*D->in)[idx];
                return 0;
            }
            const impl_t& I = *D->impl;
            double acc = 0;
            const auto cnt = I.receivers_count()(idx);
            for (std::size_t r = 0; r < cnt; ++r)
            {
                std::size_t rec = I.receivers()(idx, r);
                if (rec == idx)
                    continue;
                double w = I.receivers_weight()(idx, r);
                acc += w * ((*D->out)[rec] + I.receivers_distance()(idx, r));
            }
            N->val = acc;
            return 0;
        };
        k.func = [local](void* nd) -> int
        {
            auto* N = static_cast<KNode*>(nd);
            if (local)
                N->val = 2.0 * N->val + N->aux;
            return 0;
        };
        k.node_data_setter = [](std::size_t idx, void* nd, void* data) -> int
        {
            auto* D = static_cast<KData*>(data);
            auto* N = static_cast<KNode*>(nd);
            (*D->out)[idx] = N->val;
            if (D->calls)
                D->calls->fetch_add(1, std::memory_order_relaxed);
            if (D->per_node_calls)
                (*D->per_node_calls)[idx].fetch_add(1, std::memory_order_relaxed);
            return 0;
        };
        k.n_threads = n_threads;
        k.min_block_size = min_block;
        k.min_level_size = min_level;
        k.apply_dir = dir;
        return k;
    }

    inline std::vector<double> run_kernel(graph_t& graph, fs::flow_graph_traversal_dir dir, int n_threads, int min_block,
                                          int min_level, const std::vector<double>& in, std::atomic<long>* calls = nullptr,
                                          std::vector<std::atomic<int>>* per_node = nullptr)
    {
        std::vector<double> out(graph.size(), -1.0);
        KData D;
        D.impl = &graph.impl();
        D.out = &out;
        D.in = &in;
        D.calls = calls;
        D.per_node_calls = per_node;
        fs::detail::flow_kernel_data kd;
        kd.data = &D;
        auto k = make_kernel(dir, n_threads, min_block, min_level);
        graph.apply_kernel(k, kd);
        return out;
    }

    // ---------------------------------------------------------------------- state digest (C09 / C10 / C16)
    struct Digest
    {
        std::vector<std::pair<std::string, std::vector<std::uint64_t>>> parts;
        void add(const std::string& name, std::vector<std::uint64_t> v)
        {
            parts.push_back({ name, std::move(v) });
        }
        void add_d(const std::string& name, const std::vector<double>& v)
        {
            std::vector<std::uint64_t> u(v.size());
            for (std::size_t i = 0; i < v.size(); ++i)
                u[i] = std::isnan(v[i]) ? 0x7ff8000000000000ULL : bits(v[i]);
            add(name, std::move(u));
        }
        void add_s(const std::string& name, const std::vector<std::size_t>& v)
        {
            add(name, std::vector<std::uint64_t>(v.begin(), v.end()));
        }
        // "" when equal, otherwise a description of the first difference
        std::string diff(const Digest& o) const
        {
            if (parts.size() != o.parts.size())
                return "different number of digest parts";
            for (std::size_t p = 0; p < parts.size(); ++p)
            {
                if (parts[p].first != o.parts[p].first)
                    return "part name " + parts[p].first + " vs " + o.parts[p].first;
                auto& a = parts[p].second;
                auto& b = o.parts[p].second;
                if (a.size() != b.size())
                    return parts[p].first + ": size " + std::to_string(a.size()) + " vs " + std::to_string(b.size());
                for (std::size_t i = 0; i < a.size(); ++i)
                    if (a[i] != b[i])
                    {
                        char buf[160];
                        std::snprintf(buf, sizeof buf, "%s[%zu]: 0x%llx vs 0x%llx", parts[p].first.c_str(), i,
                                      static_cast<unsigned long long>(a[i]), static_cast<unsigned long long>(b[i]));
                        return buf;
                    }
            }
            return "";
        }
        std::uint64_t hash() const
        {
            Hasher h;
            for (auto& p : parts)
            {
                h.str(p.first);
                h.vec(p.second);
            }
            return h.h;
        }
    };

    // meaningful entries of the graph tables (first receivers_count / donors_count entries; donors as
    // sorted multisets: their storage order is not part of any statement)
    inline void digest_tables(Digest& D, const GState& S, bool with_bfs = true)
    {
        std::vector<std::uint64_t> rec, don;
        std::vector<double> dist, wgt;
        for (std::size_t i = 0; i < S.n; ++i)
        {
            for (std::size_t k = 0; k < S.rec_count[i] && k < S.W; ++k)
            {
                rec.push_back(S.r(i, k));
                dist.push_back(S.rd(i, k));
                wgt.push_back(S.rw(i, k));
            }
            std::vector<std::size_t> d;
            for (std::size_t k = 0; k < S.don_count[i] && k < S.DW; ++k)
                if (S.d(i, k) != i)
                    d.push_back(S.d(i, k));
            std::sort(d.begin(), d.end());
            don.push_back(d.size());
            for (auto x : d)
                don.push_back(x);
        }
        D.add_s("receivers_count", S.rec_count);
        D.add("receivers", rec);
        D.add_d("receivers_distance", dist);
        D.add_d("receivers_weight", wgt);
        D.add("donors(distinct,sorted)", don);
        D.add_s("dfs_indices", S.dfs);
        if (with_bfs)
        {
            D.add_s("bfs_indices", S.bfs);
            D.add_s("bfs_levels", S.levels);
        }
    }
}
