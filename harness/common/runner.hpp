// Case runner: command line, BEGIN/END protocol on stdout, counters, samples, violation records.
//
// stdout protocol (one record per line, flushed):
//   BEGIN <k>
//   VIOL <k> <property> <key> <json witness>
//   NOTE <k> <text>
//   END <k> <held|violated|inconclusive|skipped> <nontrivial 0/1> <case hash hex>
//   STATS <json>          (once, at the end)
// The parent (./check) attributes a crash / sanitizer abort / hang to the last BEGIN without END.
#pragma once
#include <cstdio>
#include <cstdlib>
#include <cstring>
#include <cinttypes>
#include <map>
#include <set>
#include <string>
#include <vector>
#include <sstream>
#include <stdexcept>
#include <typeinfo>
#include <chrono>

#include "prng.hpp"

namespace vf
{
    // ---------------------------------------------------------------- tiny JSON writer
    inline std::string jstr(const std::string& s)
    {
        std::string o = "\"";
        for (char ch : s)
        {
            unsigned char c = static_cast<unsigned char>(ch);
            if (c == '"')
                o += "\\\"";
            else if (c == '\\')
                o += "\\\\";
            else if (c == '\n')
                o += "\\n";
            else if (c < 0x20)
            {
                char buf[8];
                std::snprintf(buf, sizeof buf, "\\u%04x", c);
                o += buf;
            }
            else
                o += ch;
        }
        return o + "\"";
    }

    inline std::string jnum(double x)
    {
        if (!std::isfinite(x))
            return jstr(std::isnan(x) ? "nan" : (x > 0 ? "inf" : "-inf"));
        char buf[64];
        std::snprintf(buf, sizeof buf, "%.17g", x);
        return buf;
    }

    inline std::string jhex(double x)
    {
        char buf[64];
        std::snprintf(buf, sizeof buf, "\"%a\"", x);
        return buf;
    }

    template <class T>
    inline std::string jint(T x)
    {
        return std::to_string(x);
    }

    class JObj
    {
    public:
        JObj& raw(const std::string& k, const std::string& v)
        {
            if (!body.empty())
                body += ",";
            body += jstr(k) + ":" + v;
            return *this;
        }
        JObj& s(const std::string& k, const std::string& v)
        {
            return raw(k, jstr(v));
        }
        template <class T>
        JObj& i(const std::string& k, T v)
        {
            return raw(k, std::to_string(v));
        }
        JObj& d(const std::string& k, double v)
        {
            return raw(k, jnum(v));
        }
        JObj& b(const std::string& k, bool v)
        {
            return raw(k, v ? "true" : "false");
        }
        std::string str() const
        {
            return "{" + body + "}";
        }

    private:
        std::string body;
    };

    template <class V, class F>
    inline std::string jarr(const V& v, F f, std::size_t maxn = SIZE_MAX)
    {
        std::string o = "[";
        std::size_t n = 0;
        for (const auto& x : v)
        {
            if (n >= maxn)
            {
                o += ",\"...\"";
                break;
            }
            if (n++)
                o += ",";
            o += f(x);
        }
        return o + "]";
    }

    template <class V>
    inline std::string jarr_int(const V& v, std::size_t maxn = SIZE_MAX)
    {
        return jarr(
            v, [](const auto& x) { return std::to_string(x); }, maxn);
    }

    template <class V>
    inline std::string jarr_num(const V& v, std::size_t maxn = SIZE_MAX)
    {
        return jarr(
            v, [](const auto& x) { return jnum(x); }, maxn);
    }

    // ---------------------------------------------------------------- arguments
    struct Args
    {
        std::string prop = "all";  // property whose oracles decide (or "all" for the C08 sweep)
        std::uint64_t seed = 1;
        long shard = 0;
        long nshards = 1;
        long cases = 100;  // number of cases of this shard: k in [0, cases)
        long start = 0;    // resume after a crash
        long only = -1;    // replay a single case
        std::string tier = "quick";
        bool dump = false;  // print the explicit case and do not execute it
        bool verbose = false;
        long maxn = 0;  // size knob (0 = tier default)
        std::map<std::string, std::string> extra;

        std::string get(const std::string& k, const std::string& dflt = "") const
        {
            auto it = extra.find(k);
            return it == extra.end() ? dflt : it->second;
        }
        long geti(const std::string& k, long dflt) const
        {
            auto it = extra.find(k);
            return it == extra.end() ? dflt : std::strtol(it->second.c_str(), nullptr, 10);
        }
    };

    inline Args parse_args(int argc, char** argv)
    {
        Args a;
        for (int i = 1; i < argc; ++i)
        {
            std::string k = argv[i];
            auto val = [&]() -> std::string
            {
                if (i + 1 >= argc)
                {
                    std::fprintf(stderr, "missing value for %s\n", k.c_str());
                    std::exit(2);
                }
                return argv[++i];
            };
            if (k == "--prop")
                a.prop = val();
            else if (k == "--seed")
                a.seed = std::strtoull(val().c_str(), nullptr, 10);
            else if (k == "--shard")
                a.shard = std::strtol(val().c_str(), nullptr, 10);
            else if (k == "--nshards")
                a.nshards = std::strtol(val().c_str(), nullptr, 10);
            else if (k == "--cases")
                a.cases = std::strtol(val().c_str(), nullptr, 10);
            else if (k == "--start")
                a.start = std::strtol(val().c_str(), nullptr, 10);
            else if (k == "--only")
                a.only = std::strtol(val().c_str(), nullptr, 10);
            else if (k == "--tier")
                a.tier = val();
            else if (k == "--maxn")
                a.maxn = std::strtol(val().c_str(), nullptr, 10);
            else if (k == "--dump")
                a.dump = true;
            else if (k == "--verbose")
                a.verbose = true;
            else if (k.rfind("--x-", 0) == 0)
                a.extra[k.substr(4)] = val();
            else
            {
                std::fprintf(stderr, "unknown argument %s\n", k.c_str());
                std::exit(2);
            }
        }
        return a;
    }

    // ---------------------------------------------------------------- runner
    class Runner
    {
    public:
        explicit Runner(const Args& a, const std::string& harness, const std::string& gridkind)
            : args(a)
            , m_harness(harness)
            , m_grid(gridkind)
        {
            std::setvbuf(stdout, nullptr, _IOLBF, 0);
            t0 = std::chrono::steady_clock::now();
        }

        bool want(const std::string& p) const
        {
            return args.prop == "all" || args.prop == p;
        }

        // fuzzing mode (libFuzzer drives the cases in-process): no per-case protocol lines; a violation that counts for the
        // campaign is printed and the process aborts, so that the fuzzer keeps the input as an artifact
        void set_fuzz(const char* known_keys_csv)
        {
            fuzz = true;
            std::string s = known_keys_csv ? known_keys_csv : "";
            std::size_t a = 0;
            while (a < s.size())
            {
                std::size_t b = s.find(',', a);
                if (b == std::string::npos)
                    b = s.size();
                if (b > a)
                    fuzz_known.insert(s.substr(a, b - a));
                a = b + 1;
            }
        }

        void begin(long k)
        {
            cur = k;
            cur_viol = 0;
            cur_inconc = false;
            cur_nontrivial = false;
            cur_hash = 0;
            if (fuzz)
                return;
            std::printf("BEGIN %ld\n", k);
            std::fflush(stdout);
        }

        void set_case_hash(std::uint64_t h)
        {
            cur_hash = h;
        }
        void nontrivial(bool v = true)
        {
            cur_nontrivial = cur_nontrivial || v;
        }
        void inconclusive(const std::string& why)
        {
            cur_inconc = true;
            count("inconclusive:" + why);
            std::printf("NOTE %ld inconclusive %s\n", cur, why.c_str());
        }

        // record a violation of property `prop` with classifier key `key`
        void violation(const std::string& prop, const std::string& key, const std::string& witness_json)
        {
            if (fuzz)
            {
                const bool table = prop == "C06" && (key.find("_range") != std::string::npos || key == "table_shapes");
                const bool counts = args.prop == "all" ? table : prop == args.prop;
                if (!counts)
                    return;
                if (fuzz_known.count(prop + ":" + key))
                {
                    count("known:" + prop + ":" + key);
                    return;
                }
                std::printf("VIOL %ld %s %s %s\n", cur, prop.c_str(), key.c_str(), witness_json.c_str());
                std::fflush(stdout);
                std::abort();
            }
            ++cur_viol;
            ++total_viol;
            count("viol:" + prop + ":" + key);
            if (cur_viol <= 8)
            {
                std::printf("VIOL %ld %s %s %s\n", cur, prop.c_str(), key.c_str(), witness_json.c_str());
                std::fflush(stdout);
            }
        }

        void end()
        {
            const char* v = cur_viol ? "violated" : (cur_inconc ? "inconclusive" : "held");
            ++evaluations;
            if (cur_nontrivial)
                ++nontrivial_cases;
            if (fuzz)
            {
                if (cur_nontrivial)
                    fuzz_hashes.insert(cur_hash);
                cur = -1;
                return;
            }
            std::printf("END %ld %s %d %016" PRIx64 "\n", cur, v, cur_nontrivial ? 1 : 0, cur_hash);
            std::fflush(stdout);
            cur = -1;
        }

        void count(const std::string& k, long n = 1)
        {
            counters[k] += n;
        }
        void maxc(const std::string& k, long v)
        {
            auto it = counters.find(k);
            if (it == counters.end() || it->second < v)
                counters[k] = v;
        }

        // keep up to `cap` sample cases (explicit JSON)
        void sample(const std::string& json, std::size_t cap = 2)
        {
            if (samples.size() < cap)
                samples.push_back(json);
        }
        bool want_sample(std::size_t cap = 2) const
        {
            return samples.size() < cap;
        }

        void finish()
        {
            double wall = std::chrono::duration<double>(std::chrono::steady_clock::now() - t0).count();
            std::string cj = "{";
            bool first = true;
            for (auto& kv : counters)
            {
                if (!first)
                    cj += ",";
                first = false;
                cj += jstr(kv.first) + ":" + std::to_string(kv.second);
            }
            cj += "}";
            std::string sj = "[";
            for (std::size_t i = 0; i < samples.size(); ++i)
            {
                if (i)
                    sj += ",";
                sj += samples[i];
            }
            sj += "]";
            JObj o;
            o.s("harness", m_harness)
                .s("grid", m_grid)
                .s("prop", args.prop)
                .i("seed", args.seed)
                .i("shard", args.shard)
                .i("evaluations", evaluations)
                .i("nontrivial", nontrivial_cases)
                .i("violations", total_viol)
                .i("fuzz_distinct_nontrivial", static_cast<long>(fuzz_hashes.size()))
                .d("wall_s", wall)
                .raw("counters", cj)
                .raw("samples", sj);
            std::printf("STATS %s\n", o.str().c_str());
            std::fflush(stdout);
        }

        long current() const
        {
            return cur;
        }

        const Args args;
        std::size_t fuzz_distinct() const
        {
            return fuzz_hashes.size();
        }

    private:
        bool fuzz = false;
        std::set<std::string> fuzz_known;
        std::set<std::uint64_t> fuzz_hashes;
        std::string m_harness, m_grid;
        long cur = -1;
        long cur_viol = 0;
        bool cur_inconc = false;
        bool cur_nontrivial = false;
        std::uint64_t cur_hash = 0;
        long evaluations = 0;
        long nontrivial_cases = 0;
        long total_viol = 0;
        std::map<std::string, long> counters;
        std::vector<std::string> samples;
        std::chrono::steady_clock::time_point t0;
    };

    // generic main loop: F = void(Runner&, Rng&, long k)
    template <class F>
    int run_cases(Runner& R, const std::string& stream, F&& f)
    {
        const Args& a = R.args;
        for (long k = a.start; k < a.cases; ++k)
        {
            if (a.only >= 0 && k != a.only)
                continue;
            Rng rng(a.seed, hash_str(stream), static_cast<std::uint64_t>(a.shard), static_cast<std::uint64_t>(k));
            R.begin(k);
            try
            {
                f(R, rng, k);
            }
            catch (const std::exception& e)
            {
                // an exception escaping an in-domain call: the call under test did not complete
                R.violation(a.prop == "all" ? "C08" : a.prop,
                            std::string("exception/") + typeid(e).name(),
                            JObj().s("what", e.what()).str());
            }
            R.end();
        }
        R.finish();
        return 0;
    }

    // ---------------------------------------------------------------- coverage-guided campaigns (libFuzzer, -DVF_FUZZ)
    // One execution = one case whose generator decisions come from the fuzzer's byte string (see Rng::set_source); F is
    // void(Runner&, Rng&, const std::string& prop). VF_FUZZ_PROP selects the property whose violations stop the campaign ("all":
    // sanitizer reports and table-width invariants only); VF_FUZZ_KNOWN lists "<property>:<key>" pairs of known findings.
    inline Runner*& fuzz_runner_slot()
    {
        static Runner* r = nullptr;
        return r;
    }
    inline void fuzz_finish()
    {
        if (fuzz_runner_slot())
            fuzz_runner_slot()->finish();
    }

    template <class F>
    int fuzz_one(const char* harness, const std::string& gridkind, const char* default_prop, const unsigned char* data, std::size_t size, F&& f)
    {
        static std::string prop;
        static long k = 0;
        Runner*& slot = fuzz_runner_slot();
        if (!slot)
        {
            Args a;
            const char* p = std::getenv("VF_FUZZ_PROP");
            a.prop = p ? p : default_prop;
            a.tier = "quick";
            a.cases = 0;
            prop = a.prop;
            slot = new Runner(a, harness, gridkind);
            slot->set_fuzz(std::getenv("VF_FUZZ_KNOWN"));
            std::atexit(fuzz_finish);
        }
        Runner& R = *slot;
        std::uint64_t head = 0;
        std::memcpy(&head, data, size < 8 ? size : 8);
        Rng rng(0x5eedULL, head);  // what follows the buffer depends on its first bytes only: local mutations stay local
        rng.set_source(data, size);
        R.begin(k++);
        try
        {
            f(R, rng, prop);
        }
        catch (const std::exception& e)
        {
            R.violation(prop == "all" ? "C08" : prop, std::string("exception/") + typeid(e).name(), JObj().s("what", e.what()).str());
        }
        R.end();
        return 0;
    }
}
