// Grid type selection (one grid type per translation unit, chosen by -DVG_<KIND>), explicit grid
// specifications, the library grid factory, and the harness's own reference geometry
// (adjacency / distances / statuses computed from the specification only -- it never calls the
// library's neighbour code).
#pragma once
#include <array>
#include <cmath>
#include <map>
#include <memory>
#include <set>
#include <string>
#include <vector>
#include <algorithm>

#include "fastscapelib/grid/base.hpp"
#include "fastscapelib/grid/profile_grid.hpp"
#include "fastscapelib/grid/raster_grid.hpp"
#include "fastscapelib/grid/trimesh.hpp"

#include "prng.hpp"
#include "runner.hpp"

namespace fs = fastscapelib;

namespace vf
{
    enum class Family
    {
        profile,
        raster,
        mesh
    };

#if defined(VG_PROFILE)
    using grid_t = fs::profile_grid<>;
    constexpr Family family = Family::profile;
    constexpr const char* grid_name = "profile";
    constexpr bool grid_cached = true;
#elif defined(VG_PROFILE_NC)
    using grid_t = fs::profile_grid<fs::xt_selector, fs::neighbors_no_cache<2>>;
    constexpr Family family = Family::profile;
    constexpr const char* grid_name = "profile_nc";
    constexpr bool grid_cached = false;
#elif defined(VG_RASTER_ROOK)
    using grid_t = fs::raster_grid<fs::xt_selector, fs::raster_connect::rook>;
    constexpr Family family = Family::raster;
    constexpr const char* grid_name = "raster_rook";
    constexpr bool grid_cached = true;
#define VG_CONNECT 0
#elif defined(VG_RASTER_QUEEN)
    using grid_t = fs::raster_grid<fs::xt_selector, fs::raster_connect::queen>;
    constexpr Family family = Family::raster;
    constexpr const char* grid_name = "raster_queen";
    constexpr bool grid_cached = true;
#define VG_CONNECT 1
#elif defined(VG_RASTER_BISHOP)
    using grid_t = fs::raster_grid<fs::xt_selector, fs::raster_connect::bishop>;
    constexpr Family family = Family::raster;
    constexpr const char* grid_name = "raster_bishop";
    constexpr bool grid_cached = true;
#define VG_CONNECT 2
#elif defined(VG_RASTER_QUEEN_NC)
    using grid_t = fs::raster_grid<fs::xt_selector, fs::raster_connect::queen, fs::neighbors_no_cache<8>>;
    constexpr Family family = Family::raster;
    constexpr const char* grid_name = "raster_queen_nc";
    constexpr bool grid_cached = false;
#define VG_CONNECT 1
#elif defined(VG_RASTER_ROOK_NC)
    using grid_t = fs::raster_grid<fs::xt_selector, fs::raster_connect::rook, fs::neighbors_no_cache<4>>;
    constexpr Family family = Family::raster;
    constexpr const char* grid_name = "raster_rook_nc";
    constexpr bool grid_cached = false;
#define VG_CONNECT 0
#elif defined(VG_RASTER_BISHOP_NC)
    using grid_t = fs::raster_grid<fs::xt_selector, fs::raster_connect::bishop, fs::neighbors_no_cache<4>>;
    constexpr Family family = Family::raster;
    constexpr const char* grid_name = "raster_bishop_nc";
    constexpr bool grid_cached = false;
#define VG_CONNECT 2
#elif defined(VG_TRIMESH)
    using grid_t = fs::trimesh;
    constexpr Family family = Family::mesh;
    constexpr const char* grid_name = "trimesh";
    constexpr bool grid_cached = false;
#else
#error "define one of VG_PROFILE, VG_PROFILE_NC, VG_RASTER_*, VG_TRIMESH"
#endif

#ifndef VG_CONNECT
#define VG_CONNECT (-1)
#endif
    constexpr int raster_connect_id = VG_CONNECT;  // 0 rook, 1 queen, 2 bishop

    using NS = fs::node_status;

    inline const char* ns_name(NS s)
    {
        switch (s)
        {
            case NS::core:
                return "core";
            case NS::fixed_value:
                return "fixed_value";
            case NS::fixed_gradient:
                return "fixed_gradient";
            case NS::looped:
                return "looped";
        }
        return "?";
    }

    inline int ns_priority(NS s)
    {
        switch (s)
        {
            case NS::core:
                return 0;
            case NS::looped:
                return 1;
            case NS::fixed_gradient:
                return 2;
            case NS::fixed_value:
                return 3;
        }
        return -1;
    }

    constexpr std::array<NS, 4> all_status{ { NS::core, NS::fixed_value, NS::fixed_gradient, NS::looped } };

    // ------------------------------------------------------------------ explicit grid specification
    struct GridSpec
    {
        // structured grids (profile: rows = 1, cols = size, spacing = dx, border = {left, right})
        std::size_t rows = 1, cols = 2;
        double dy = 1.0, dx = 1.0;
        std::array<NS, 4> border{ { NS::fixed_value, NS::fixed_value, NS::fixed_value, NS::fixed_value } };
        // per-node overrides: (row, col) -> status   (profile: row = 0)
        std::vector<std::pair<std::array<std::size_t, 2>, NS>> overrides;

        // triangular mesh
        std::vector<std::array<double, 2>> pts;
        std::vector<std::array<std::size_t, 3>> tris;
        int mesh_status_mode = 0;  // 0: default (boundary nodes fixed value), 1: map, 2: full array
        std::vector<std::pair<std::size_t, NS>> mesh_status_map;
        std::vector<NS> mesh_status_array;

        std::size_t size() const
        {
            return family == Family::mesh ? pts.size() : rows * cols;
        }

        void hash_into(Hasher& h) const
        {
            h.str(grid_name);
            h.pod(rows);
            h.pod(cols);
            h.pod(dy);
            h.pod(dx);
            for (auto b : border)
                h.pod(b);
            for (auto& o : overrides)
            {
                h.pod(o.first);
                h.pod(o.second);
            }
            for (auto& p : pts)
                h.pod(p);
            for (auto& t : tris)
                h.pod(t);
            h.pod(mesh_status_mode);
            for (auto& o : mesh_status_map)
            {
                h.pod(o.first);
                h.pod(o.second);
            }
            for (auto s : mesh_status_array)
                h.pod(s);
        }

        std::string json(std::size_t maxn = 64) const
        {
            JObj o;
            o.s("grid", grid_name);
            if (family == Family::mesh)
            {
                o.i("n_points", pts.size()).i("n_triangles", tris.size());
                o.raw("points",
                      jarr(
                          pts, [](const auto& p) { return "[" + jnum(p[0]) + "," + jnum(p[1]) + "]"; }, maxn));
                o.raw("triangles",
                      jarr(
                          tris,
                          [](const auto& t)
                          {
                              return "[" + std::to_string(t[0]) + "," + std::to_string(t[1]) + ","
                                     + std::to_string(t[2]) + "]";
                          },
                          maxn));
                o.i("status_mode", mesh_status_mode);
            }
            else
            {
                if (family == Family::raster)
                    o.i("rows", rows);
                o.i("cols", cols);
                if (family == Family::raster)
                    o.d("dy", dy);
                o.d("dx", dx);
                std::string b = "[";
                int nb = family == Family::raster ? 4 : 2;
                for (int i = 0; i < nb; ++i)
                    b += std::string(i ? "," : "") + jstr(ns_name(border[i]));
                o.raw("border_left_right_top_bottom", b + "]");
                o.raw("overrides",
                      jarr(
                          overrides,
                          [](const auto& ov)
                          {
                              return "[" + std::to_string(ov.first[0]) + "," + std::to_string(ov.first[1])
                                     + "," + jstr(ns_name(ov.second)) + "]";
                          },
                          maxn));
            }
            return o.str();
        }
    };

    // ------------------------------------------------------------------ library grid factory
    template <class G>
    std::unique_ptr<G> make_grid_t(const GridSpec& g)
    {
        using grid_t = G;  // dependent: the branches for other grid families are discarded
        if constexpr (family == Family::profile)
        {
            typename grid_t::nodes_status_map_type m;
            for (auto& o : g.overrides)
                m[o.first[1]] = o.second;
            fs::profile_boundary_status bs(g.border[0], g.border[1]);
            return std::make_unique<grid_t>(g.cols, g.dx, bs, m);
        }
        else if constexpr (family == Family::raster)
        {
            typename grid_t::nodes_status_map_type m;
            for (auto& o : g.overrides)
                m[{ o.first[0], o.first[1] }] = o.second;
            fs::raster_boundary_status bs(g.border);
            typename grid_t::shape_type shape{ { g.rows, g.cols } };
            typename grid_t::spacing_type sp{ { g.dy, g.dx } };
            return std::make_unique<grid_t>(shape, sp, bs, m);
        }
        else
        {
            typename grid_t::points_type points
                = xt::zeros<double>(std::array<std::size_t, 2>{ { g.pts.size(), 2 } });
            typename grid_t::triangles_type tris
                = xt::zeros<std::size_t>(std::array<std::size_t, 2>{ { g.tris.size(), 3 } });
            for (std::size_t i = 0; i < g.pts.size(); ++i)
            {
                points(i, 0) = g.pts[i][0];
                points(i, 1) = g.pts[i][1];
            }
            for (std::size_t t = 0; t < g.tris.size(); ++t)
                for (std::size_t j = 0; j < 3; ++j)
                    tris(t, j) = g.tris[t][j];
            if (g.mesh_status_mode == 2)
            {
                typename grid_t::nodes_status_array_type st
                    = xt::zeros<NS>(std::array<std::size_t, 1>{ { g.mesh_status_array.size() } });
                for (std::size_t i = 0; i < g.mesh_status_array.size(); ++i)
                    st(i) = g.mesh_status_array[i];
                return std::make_unique<grid_t>(points, tris, st);
            }
            typename grid_t::nodes_status_map_type m;
            if (g.mesh_status_mode == 1)
                for (auto& o : g.mesh_status_map)
                    m[o.first] = o.second;
            return std::make_unique<grid_t>(points, tris, m);
        }
    }

    inline std::unique_ptr<grid_t> make_grid(const GridSpec& g)
    {
        return make_grid_t<grid_t>(g);
    }

    // ------------------------------------------------------------------ reference geometry
    struct RefNb
    {
        std::size_t idx;
        double dist;
    };

    struct RefGeom
    {
        std::size_t n = 0;
        bool valid = true;           // false: the specification must be rejected by the library
        std::string invalid_reason;  // why
        std::vector<std::vector<RefNb>> adj;  // multiset per node (size-2 looped axes give duplicates)
        std::vector<NS> status;
        std::vector<std::array<double, 2>> xy;  // node coordinates (y = row*dy, x = col*dx)
    };

    inline bool spec_looped_h(const GridSpec& g)
    {
        return g.border[0] == NS::looped && g.border[1] == NS::looped;
    }
    inline bool spec_looped_v(const GridSpec& g)
    {
        return g.border[2] == NS::looped && g.border[3] == NS::looped;
    }

    // status composition of C17: core -> borders -> corner precedence -> overrides
    inline void ref_status_structured(const GridSpec& g, RefGeom& R)
    {
        const std::size_t nr = g.rows, nc = g.cols;
        R.status.assign(nr * nc, NS::core);
        if (family == Family::profile)
        {
            if ((g.border[0] == NS::looped) != (g.border[1] == NS::looped))
            {
                R.valid = false;
                R.invalid_reason = "asymmetric looped";
                return;
            }
            R.status[0] = g.border[0];
            R.status[nc - 1] = g.border[1];
        }
        else
        {
            if ((g.border[0] == NS::looped) != (g.border[1] == NS::looped)
                || (g.border[2] == NS::looped) != (g.border[3] == NS::looped))
            {
                R.valid = false;
                R.invalid_reason = "asymmetric looped";
                return;
            }
            for (std::size_t r = 0; r < nr; ++r)
                for (std::size_t c = 0; c < nc; ++c)
                {
                    // statuses of the borders this node lies on
                    int best = -1;
                    NS s = NS::core;
                    auto consider = [&](NS b)
                    {
                        if (ns_priority(b) > best)
                        {
                            best = ns_priority(b);
                            s = b;
                        }
                    };
                    if (c == 0)
                        consider(g.border[0]);
                    if (c == nc - 1)
                        consider(g.border[1]);
                    if (r == 0)
                        consider(g.border[2]);
                    if (r == nr - 1)
                        consider(g.border[3]);
                    R.status[r * nc + c] = s;
                }
        }
        // overrides, in key order (the library iterates a std::map); duplicates: last wins in the
        // spec -> the factory above builds the map the same way (operator[]), so resolve first
        std::map<std::array<std::size_t, 2>, NS> m;
        for (auto& o : g.overrides)
            m[o.first] = o.second;
        for (auto& kv : m)
        {
            std::size_t r = kv.first[0], c = kv.first[1];
            if (r >= nr || c >= nc)
            {
                R.valid = false;
                R.invalid_reason = "override out of range";
                return;
            }
            if (kv.second == NS::looped)
            {
                R.valid = false;
                R.invalid_reason = "looped in override map";
                return;
            }
            if (R.status[r * nc + c] == NS::looped)
            {
                R.valid = false;
                R.invalid_reason = "override of a looped node";
                return;
            }
            R.status[r * nc + c] = kv.second;
        }
    }

    inline void ref_adj_structured(const GridSpec& g, RefGeom& R)
    {
        const long nr = static_cast<long>(g.rows), nc = static_cast<long>(g.cols);
        R.adj.assign(static_cast<std::size_t>(nr * nc), {});
        R.xy.resize(static_cast<std::size_t>(nr * nc));
        const bool lh = spec_looped_h(g), lv = family == Family::raster && spec_looped_v(g);
        std::vector<std::array<long, 2>> steps;
        if (family == Family::profile)
            steps = { { 0, -1 }, { 0, 1 } };
        else if (raster_connect_id == 0)
            steps = { { -1, 0 }, { 0, -1 }, { 0, 1 }, { 1, 0 } };
        else if (raster_connect_id == 2)
            steps = { { -1, -1 }, { -1, 1 }, { 1, -1 }, { 1, 1 } };
        else
            steps = { { -1, -1 }, { -1, 0 }, { -1, 1 }, { 0, -1 }, { 0, 1 }, { 1, -1 }, { 1, 0 }, { 1, 1 } };
        for (long r = 0; r < nr; ++r)
            for (long c = 0; c < nc; ++c)
            {
                std::size_t i = static_cast<std::size_t>(r * nc + c);
                R.xy[i] = { { static_cast<double>(r) * g.dy, static_cast<double>(c) * g.dx } };
                for (auto& st : steps)
                {
                    long rr = r + st[0], cc = c + st[1];
                    if (rr < 0 || rr >= nr)
                    {
                        if (!lv)
                            continue;
                        rr = (rr + nr) % nr;
                    }
                    if (cc < 0 || cc >= nc)
                    {
                        if (!lh)
                            continue;
                        cc = (cc + nc) % nc;
                    }
                    double ddy = st[0] != 0 ? g.dy : 0.0;
                    double ddx = st[1] != 0 ? g.dx : 0.0;
                    double d = std::sqrt(ddy * ddy + ddx * ddx);
                    R.adj[i].push_back({ static_cast<std::size_t>(rr * nc + cc), d });
                }
            }
    }

    inline void ref_mesh(const GridSpec& g, RefGeom& R)
    {
        const std::size_t n = g.pts.size();
        R.adj.assign(n, {});
        R.xy.resize(n);
        for (std::size_t i = 0; i < n; ++i)
            R.xy[i] = { { g.pts[i][1], g.pts[i][0] } };  // (y, x) like the structured grids
        std::map<std::pair<std::size_t, std::size_t>, int> edges;
        for (auto& t : g.tris)
            for (int k = 0; k < 3; ++k)
            {
                std::size_t a = t[static_cast<std::size_t>(k)], b = t[static_cast<std::size_t>((k + 1) % 3)];
                if (a > b)
                    std::swap(a, b);
                edges[{ a, b }] += 1;
            }
        std::vector<char> boundary(n, 0);
        for (auto& e : edges)
        {
            std::size_t a = e.first.first, b = e.first.second;
            double d = std::hypot(g.pts[a][0] - g.pts[b][0], g.pts[a][1] - g.pts[b][1]);
            R.adj[a].push_back({ b, d });
            R.adj[b].push_back({ a, d });
            if (e.second == 1)
            {
                boundary[a] = 1;
                boundary[b] = 1;
            }
        }
        R.status.assign(n, NS::core);
        if (g.mesh_status_mode == 2)
        {
            if (g.mesh_status_array.size() != n)
            {
                R.valid = false;
                R.invalid_reason = "status array shape";
                return;
            }
            R.status = g.mesh_status_array;
        }
        else if (g.mesh_status_mode == 1 && !g.mesh_status_map.empty())
        {
            std::map<std::size_t, NS> m;
            for (auto& o : g.mesh_status_map)
                m[o.first] = o.second;
            for (auto& kv : m)
            {
                if (kv.second == NS::looped)
                {
                    R.valid = false;
                    R.invalid_reason = "looped in mesh status map";
                    return;
                }
                if (kv.first >= n)
                {
                    R.valid = false;
                    R.invalid_reason = "mesh status map out of range";
                    return;
                }
                R.status[kv.first] = kv.second;
            }
        }
        else
        {
            for (std::size_t i = 0; i < n; ++i)
                if (boundary[i])
                    R.status[i] = NS::fixed_value;
        }
    }

    inline RefGeom ref_geom(const GridSpec& g)
    {
        RefGeom R;
        R.n = g.size();
        if (family == Family::mesh)
            ref_mesh(g, R);
        else
        {
            ref_status_structured(g, R);
            ref_adj_structured(g, R);
        }
        return R;
    }

    // ------------------------------------------------------------------ mesh generators
    // structured triangulation of an (ny x nx) lattice with a random diagonal per cell, optional
    // jitter, random vertex rotation / flip per triangle, optional holes (removed cells) and
    // optional isolated extra points. Node degree <= 8 (< 20).
    inline void gen_lattice_mesh(Rng& rng, GridSpec& g, std::size_t ny, std::size_t nx, double sy, double sx,
                                 double jitter, double hole_p, std::size_t n_isolated)
    {
        g.pts.clear();
        g.tris.clear();
        for (std::size_t r = 0; r < ny; ++r)
            for (std::size_t c = 0; c < nx; ++c)
            {
                double jx = 0, jy = 0;
                if (jitter > 0)
                {
                    jx = rng.uniform(-jitter, jitter) * sx;
                    jy = rng.uniform(-jitter, jitter) * sy;
                }
                g.pts.push_back({ { static_cast<double>(c) * sx + jx, static_cast<double>(r) * sy + jy } });
            }
        auto id = [&](std::size_t r, std::size_t c) { return r * nx + c; };
        for (std::size_t r = 0; r + 1 < ny; ++r)
            for (std::size_t c = 0; c + 1 < nx; ++c)
            {
                if (hole_p > 0 && rng.chance(hole_p))
                    continue;
                std::size_t a = id(r, c), b = id(r, c + 1), d = id(r + 1, c), e = id(r + 1, c + 1);
                std::array<std::array<std::size_t, 3>, 2> tt;
                if (rng.chance(0.5))
                    tt = { { { { a, b, e } }, { { a, e, d } } } };
                else
                    tt = { { { { a, b, d } }, { { b, e, d } } } };
                for (auto t : tt)
                {
                    // random rotation / flip of the vertex order
                    std::size_t rot = rng.below(3);
                    std::array<std::size_t, 3> u{ { t[rot], t[(rot + 1) % 3], t[(rot + 2) % 3] } };
                    if (rng.chance(0.5))
                        std::swap(u[1], u[2]);
                    g.tris.push_back(u);
                }
            }
        for (std::size_t k = 0; k < n_isolated; ++k)
            g.pts.push_back({ { -1.0 - static_cast<double>(k), -1.0 - rng.u01() } });
    }

    // fan: hub surrounded by `deg` rim points (hub degree = deg <= 20), optionally closed
    inline void gen_fan_mesh(Rng& rng, GridSpec& g, std::size_t deg, bool closed, double radius)
    {
        g.pts.clear();
        g.tris.clear();
        g.pts.push_back({ { 0.0, 0.0 } });
        const double two_pi = 6.283185307179586;
        double span = closed ? two_pi : two_pi * 0.75;
        for (std::size_t k = 0; k < deg; ++k)
        {
            double a = span * static_cast<double>(k) / static_cast<double>(closed ? deg : deg - 1);
            double rr = radius * rng.uniform(0.7, 1.3);
            g.pts.push_back({ { rr * std::cos(a), rr * std::sin(a) } });
        }
        std::size_t ntri = closed ? deg : deg - 1;
        for (std::size_t k = 0; k < ntri; ++k)
        {
            std::size_t a = 1 + k, b = 1 + (k + 1) % deg;
            std::array<std::size_t, 3> t{ { 0, a, b } };
            std::size_t rot = rng.below(3);
            std::array<std::size_t, 3> u{ { t[rot], t[(rot + 1) % 3], t[(rot + 2) % 3] } };
            if (rng.chance(0.5))
                std::swap(u[1], u[2]);
            g.tris.push_back(u);
        }
    }

    // ------------------------------------------------------------------ random grid specs (flow / eroder harnesses)
    struct GridGenOpts
    {
        std::size_t max_side = 12;   // raster side / mesh lattice side
        std::size_t max_profile = 64;
        bool allow_looped = true;
        bool allow_overrides = true;
        bool need_fixed_value = false;  // make sure the default base level set is not empty
    };

    inline NS rand_border(Rng& rng, bool allow_looped)
    {
        // fixed value favoured (base levels), the others well represented
        double u = rng.u01();
        if (u < 0.45)
            return NS::fixed_value;
        if (u < 0.65)
            return NS::core;
        if (u < 0.8 || !allow_looped)
            return NS::fixed_gradient;
        return NS::looped;
    }

    inline GridSpec gen_grid_spec(Rng& rng, const GridGenOpts& o)
    {
        GridSpec g;
        if constexpr (family == Family::profile)
        {
            g.rows = 1;
            g.cols = static_cast<std::size_t>(rng.range(2, static_cast<long>(o.max_profile)));
            if (rng.chance(0.3))
                g.cols = static_cast<std::size_t>(rng.range(2, 6));
            g.dx = rng.chance(0.5) ? 1.0 : (rng.chance(0.15) ? rng.logu(1e-4, 1e4) : rng.logu(0.01, 500.0));
            NS l = rand_border(rng, o.allow_looped), r = rand_border(rng, o.allow_looped);
            if (l == NS::looped || r == NS::looped)
                l = r = NS::looped;
            g.border = { { l, r, NS::core, NS::core } };
            if (o.allow_overrides && rng.chance(0.4))
            {
                long k = rng.range(1, 3);
                for (long j = 0; j < k; ++j)
                {
                    std::size_t c = rng.below(g.cols);
                    NS s = all_status[rng.below(3)];
                    bool end_looped = (l == NS::looped) && (c == 0 || c == g.cols - 1);
                    if (!end_looped)
                        g.overrides.push_back({ { { 0, c } }, s });
                }
            }
        }
        else if constexpr (family == Family::raster)
        {
            long mx = static_cast<long>(o.max_side);
            g.rows = static_cast<std::size_t>(rng.range(2, mx));
            g.cols = static_cast<std::size_t>(rng.range(2, mx));
            if (rng.chance(0.15))
                g.rows = 2;
            if (rng.chance(0.15))
                g.cols = 2;
            if (rng.chance(0.5))
            {
                g.dy = g.dx = 1.0;
            }
            else
            {
                // mostly moderate spacings, sometimes very small / very large ones (units are the user's)
                const bool extreme = rng.chance(0.15);
                g.dy = extreme ? rng.logu(1e-4, 1e4) : rng.logu(0.05, 50.0);
                g.dx = rng.chance(0.3) ? g.dy : (extreme ? rng.logu(1e-4, 1e4) : rng.logu(0.05, 50.0));
            }
            NS l = rand_border(rng, o.allow_looped), r = rand_border(rng, o.allow_looped);
            NS t = rand_border(rng, o.allow_looped), b = rand_border(rng, o.allow_looped);
            if (l == NS::looped || r == NS::looped)
                l = r = NS::looped;
            if (t == NS::looped || b == NS::looped)
                t = b = NS::looped;
            g.border = { { l, r, t, b } };
            if (o.allow_overrides && rng.chance(0.4))
            {
                RefGeom tmp;
                tmp.n = g.size();
                ref_status_structured(g, tmp);
                long k = rng.range(1, 4);
                for (long j = 0; j < k; ++j)
                {
                    std::size_t rr = rng.below(g.rows), cc = rng.below(g.cols);
                    if (tmp.status[rr * g.cols + cc] == NS::looped)
                        continue;
                    g.overrides.push_back({ { { rr, cc } }, all_status[rng.below(3)] });
                }
            }
        }
        else
        {
            double u = rng.u01();
            if (u < 0.15)
            {
                std::size_t deg = static_cast<std::size_t>(rng.range(3, 20));
                gen_fan_mesh(rng, g, deg, rng.chance(0.5) && deg >= 3, rng.logu(0.5, 20.0));
            }
            else
            {
                long mx = static_cast<long>(o.max_side);
                std::size_t ny = static_cast<std::size_t>(rng.range(2, mx));
                std::size_t nx = static_cast<std::size_t>(rng.range(2, mx));
                double sy = rng.chance(0.5) ? 1.0 : rng.logu(0.1, 20.0);
                double sx = rng.chance(0.5) ? sy : rng.logu(0.1, 20.0);
                double jit = rng.chance(0.5) ? 0.0 : rng.uniform(0.0, 0.15);
                double hole = rng.chance(0.25) ? rng.uniform(0.02, 0.2) : 0.0;
                std::size_t iso = rng.chance(0.1) ? static_cast<std::size_t>(rng.range(1, 2)) : 0;
                gen_lattice_mesh(rng, g, ny, nx, sy, sx, jit, hole, iso);
            }
            if (o.allow_overrides && rng.chance(0.3))
            {
                // explicit statuses (map or full array)
                std::size_t n = g.pts.size();
                if (rng.chance(0.5))
                {
                    g.mesh_status_mode = 1;
                    long k = rng.range(1, 5);
                    for (long j = 0; j < k; ++j)
                        g.mesh_status_map.push_back({ rng.below(n), all_status[rng.below(3)] });
                }
                else
                {
                    g.mesh_status_mode = 2;
                    g.mesh_status_array.assign(n, NS::core);
                    for (std::size_t i = 0; i < n; ++i)
                        if (rng.chance(0.15))
                            g.mesh_status_array[i] = all_status[1 + rng.below(2)];
                }
            }
        }
        if (o.need_fixed_value)
        {
            RefGeom R = ref_geom(g);
            bool any = false;
            for (auto s : R.status)
                any = any || s == NS::fixed_value;
            if (!any)
            {
                // force one fixed value node through an override / status entry
                if constexpr (family == Family::mesh)
                {
                    if (g.mesh_status_mode == 2)
                        g.mesh_status_array[rng.below(g.pts.size())] = NS::fixed_value;
                    else
                    {
                        g.mesh_status_mode = 1;
                        g.mesh_status_map.push_back({ rng.below(g.pts.size()), NS::fixed_value });
                    }
                }
                else
                {
                    for (int tries = 0; tries < 50; ++tries)
                    {
                        std::size_t rr = rng.below(g.rows), cc = rng.below(g.cols);
                        if (R.status[rr * g.cols + cc] != NS::looped)
                        {
                            g.overrides.push_back({ { { rr, cc } }, NS::fixed_value });
                            break;
                        }
                    }
                }
            }
        }
        return g;
    }
}
