// h_hist: C09 (update_routes is a pure function of its current inputs: long-lived graph vs fresh
//         graph), C16 (snapshots faithful and read-only: snapshot vs prefix graph), C20 (operator
//         sequence validation: exhaustive enumeration vs a small reference state machine).
// One grid type per binary (-DVG_<KIND>). See /verif/DESIGN.md section 5.
#include <algorithm>
#include <numeric>
#include <map>
#include <set>

#include "common/flowcommon.hpp"

using namespace vf;

namespace
{
    struct Env
    {
        GridSpec g;
        RefGeom R;
        std::unique_ptr<grid_t> grid;
    };

    Env make_env(Rng& rng, std::size_t max_side)
    {
        Env e;
        GridGenOpts o;
        o.max_side = max_side;
        o.max_profile = std::min<std::size_t>(48, max_side * 5);
        e.g = gen_grid_spec(rng, o);
        e.R = ref_geom(e.g);
        e.grid = make_grid(e.g);
        return e;
    }

    fs::mst_method rnd_bm(Rng& rng)
    {
        return rng.chance(0.5) ? fs::mst_method::kruskal : fs::mst_method::boruvka;
    }
    fs::mst_route_method rnd_rm(Rng& rng)
    {
        return rng.chance(0.5) ? fs::mst_route_method::basic : fs::mst_route_method::carve;
    }
    double rnd_p(Rng& rng)
    {
        return rng.pick(std::vector<double>{ 0.0, 0.5, 1.0, 1.1, 2.0, 5.0 });
    }
    OpSpec rnd_single(Rng& rng)
    {
        return rng.chance(0.15) ? op_single_par(static_cast<int>(rng.range(2, 3))) : op_single();
    }

    bool seq_final_single(const std::vector<OpSpec>& ops)
    {
        bool single = false;
        for (auto& o : ops)
        {
            if (o.kind == OpKind::single || o.kind == OpKind::single_par || o.kind == OpKind::mst)
                single = true;
            else if (o.kind == OpKind::multi)
                single = false;
        }
        return single;
    }

    // full observable state of a graph after an update
    Digest state_digest(graph_t& graph, const std::vector<double>& returned, bool single_final, const std::vector<double>& src)
    {
        Digest D;
        D.add_d("returned_elevation", returned);
        GState S = extract(graph.impl());
        digest_tables(D, S);
        D.add_d("accumulate(1)", flat_vec(graph.accumulate(1.0)));
        if (!src.empty())
        {
            auto shp = graph.grid_shape();
            arr_t s = arr_t::from_shape(std::vector<std::size_t>(shp.begin(), shp.end()));
            for (std::size_t i = 0; i < src.size(); ++i)
                s.flat(i) = src[i];
            D.add_d("accumulate(src)", flat_vec(graph.accumulate(s)));
        }
        // basins() is a deterministic function of the state on every graph (it follows the first receivers)
        (void) single_final;
        D.add_s("basins", flat_vec(graph.basins()));
        return D;
    }

    // ------------------------------------------------------------------------------------ C09
    std::vector<OpSpec> gen_ops_c09(Rng& rng)
    {
        std::vector<OpSpec> ops;
        double u = rng.u01();
        if (u < 0.2)
            ops = { op_pflood(), rnd_single(rng) };
        else if (u < 0.35)
            ops = { op_pflood(), op_multi(rnd_p(rng)) };
        else if (u < 0.65)
            ops = { rnd_single(rng), op_mst(rnd_bm(rng), rnd_rm(rng)) };
        else if (u < 0.75)
            ops = { rnd_single(rng), op_mst(rnd_bm(rng), rnd_rm(rng)), op_multi(rnd_p(rng)) };
        else if (u < 0.83)
            ops = { rnd_single(rng) };
        else if (u < 0.91)
            ops = { op_multi(rnd_p(rng)) };
        else
            ops = { rnd_single(rng), op_snap("s", true, true), op_mst(rnd_bm(rng), rnd_rm(rng)), op_snap("t", false, true) };
        return ops;
    }

    void c09_case(Runner& R, Rng& rng, std::size_t max_side, long hist_max)
    {
        Env env = make_env(rng, max_side);
        std::vector<OpSpec> ops = gen_ops_c09(rng);
        GraphBundle U = build_graph(*env.grid, ops);
        const bool single_final = seq_final_single(ops);
        const long len = rng.range(5, hist_max);
        // tie-heavy field classes favoured (tie-breaks expose history dependence)
        auto pick_cls = [&]() -> int
        {
            double u = rng.u01();
            if (u < 0.35)
                return 1;  // ties
            if (u < 0.5)
                return 9;  // plateau steps
            if (u < 0.6)
                return 2;  // flat
            if (u < 0.7)
                return 7;  // pattern
            return static_cast<int>(rng.below(n_field_classes));
        };
        FlowInputs cur;
        cur.z = gen_field_spec(rng, env.g, env.R, pick_cls());
        cur.custom_bl = false;
        {
            std::string tmp;
            std::vector<std::size_t> dflt;
            for (std::size_t i = 0; i < env.R.n; ++i)
                if (env.R.status[i] == NS::fixed_value)
                    dflt.push_back(i);
            cur.bl = dflt;
        }
        fix_domain(rng, env.R, cur, false);
        if (cur.custom_bl)
            U.graph->set_base_levels(cur.bl);
        std::vector<std::vector<std::size_t>> earlier_bl{ cur.bl };
        std::vector<std::string> trace;
        long updates = 0, changes_between = 0, distinct_inputs = 0;
        std::uint64_t last_z_hash = 0;
        bool change_since_update = false;
        Hasher ch;
        env.g.hash_into(ch);
        for (auto& o : ops)
            o.hash_into(ch);
        std::vector<double> src(env.R.n);
        for (auto& v : src)
            v = rng.uniform(0.0, 2.0);

        auto do_update = [&](bool repeat_check)
        {
            arr_t zin = to_arr(env.g, cur.z);
            // sometimes the cells under the mask carry a no-data value (the same one for every graph given these inputs)
            const bool with_nodata = !cur.mask.empty() && rng.chance(0.25);
            const double nodata = pick_nodata(rng);
            if (with_nodata && write_nodata_under_mask(nodata, cur.mask, zin) > 0)
                R.count("c09.updates_with_nodata_under_mask");
            arr_t zcopy = zin;
            const arr_t& hout = U.graph->update_routes(zin);
            // (1) the caller's array is untouched
            for (std::size_t i = 0; i < env.R.n; ++i)
                if (bits(zin.flat(i)) != bits(zcopy.flat(i)))
                {
                    R.violation("C09", "input_array_modified",
                                JObj().raw("grid", env.g.json(200)).raw("operators", ops_json(ops)).raw("history", jarr(trace, [](const std::string& s) { return jstr(s); })).s("detail", "node " + std::to_string(i)).str());
                    break;
                }
            std::vector<double> h = flat_vec(hout);
            Digest DU = state_digest(*U.graph, h, single_final, src);
            // (2) fresh graph with the same current inputs: on a fresh grid object, or sharing the long-lived
            // graph's grid object (several graphs on one grid share its neighbour cache)
            auto fresh_grid = make_grid(env.g);
            const bool share_grid = rng.chance(0.3);
            if (share_grid)
                R.count("c09.fresh_graph_on_shared_grid");
            const bool share_ops = rng.chance(0.25);
            if (share_ops)
                R.count("c09.fresh_graph_sharing_operator_objects");
            GraphBundle F = share_ops ? build_graph_sharing_operators(share_grid ? *env.grid : *fresh_grid, U) : build_graph(share_grid ? *env.grid : *fresh_grid, ops);
            // the getters of the long-lived graph reflect the inputs in force
            {
                auto bl = U.graph->base_levels();
                std::sort(bl.begin(), bl.end());
                bl.erase(std::unique(bl.begin(), bl.end()), bl.end());
                if (cur.custom_bl && bl != cur.bl)
                    R.violation("C09", "base_levels_getter", JObj().raw("operators", ops_json(ops)).s("detail", "base_levels() differs from the set last given to set_base_levels").str());
                if (!cur.mask.empty())
                {
                    auto mk = U.graph->mask();
                    bool okm = mk.size() == cur.mask.size();
                    for (std::size_t i = 0; okm && i < mk.size(); ++i)
                        okm = (mk.flat(i) ? 1 : 0) == (cur.mask[i] ? 1 : 0);
                    if (!okm)
                        R.violation("C09", "mask_getter", JObj().raw("operators", ops_json(ops)).s("detail", "mask() differs from the mask last given to set_mask").str());
                }
            }
            if (cur.custom_bl)
                F.graph->set_base_levels(cur.bl);
            if (!cur.mask.empty())
                F.graph->set_mask(to_mask(env.g, cur.mask));
            arr_t zin2 = to_arr(env.g, cur.z);
            if (with_nodata)
                write_nodata_under_mask(nodata, cur.mask, zin2);
            const arr_t& hf = F.graph->update_routes(zin2);
            Digest DF = state_digest(*F.graph, flat_vec(hf), single_final, src);
            std::string d = DU.diff(DF);
            ++updates;
            R.count("c09.updates_compared_with_fresh_graph");
            auto witness = [&](const std::string& detail)
            {
                return JObj()
                    .raw("grid", env.g.json(200))
                    .raw("operators", ops_json(ops))
                    .raw("history", jarr(trace, [](const std::string& s) { return jstr(s); }))
                    .raw("current_inputs", inputs_json(cur, 300))
                    .s("detail", detail)
                    .str();
            };
            if (!d.empty())
            {
                std::string part = d.substr(0, d.find_first_of("[:"));
                R.violation("C09", "history_dependent:" + part, witness("long-lived graph vs fresh graph: " + d));
            }
            if (rng.chance(0.15))
            {
                // the array update_routes() returned is handed straight back (not a copy): same state as for a copy of it on a
                // fresh graph. (accumulate(a, a) - source array as destination - is NOT demanded: no statement promises it, and the
                // library does not support it)
                arr_t returned_copy = hout;
                GraphBundle F2 = build_graph(*fresh_grid, ops);
                if (cur.custom_bl)
                    F2.graph->set_base_levels(cur.bl);
                if (!cur.mask.empty())
                    F2.graph->set_mask(to_mask(env.g, cur.mask));
                const arr_t& hf2 = F2.graph->update_routes(returned_copy);
                Digest DF2 = state_digest(*F2.graph, flat_vec(hf2), single_final, src);
                const arr_t& hu2 = U.graph->update_routes(hout);
                Digest DU2 = state_digest(*U.graph, flat_vec(hu2), single_final, src);
                std::string da = DU2.diff(DF2);
                if (!da.empty())
                    R.violation("C09", "returned_array_as_next_input:" + da.substr(0, da.find_first_of("[:")), witness("update_routes(update_routes(z)) with the returned array handed straight back vs a fresh graph given a copy: " + da));
                R.count("c09.aliased_arguments_checked");
                // bring the long-lived graph back to the state of the current inputs
                arr_t zin4 = to_arr(env.g, cur.z);
                if (with_nodata)
                    write_nodata_under_mask(nodata, cur.mask, zin4);
                U.graph->update_routes(zin4);
            }
            if (repeat_check)
            {
                // (3) repeating the call reproduces the state bit for bit
                arr_t zin3 = to_arr(env.g, cur.z);
                if (with_nodata)
                    write_nodata_under_mask(nodata, cur.mask, zin3);
                const arr_t& h3 = U.graph->update_routes(zin3);
                Digest D3 = state_digest(*U.graph, flat_vec(h3), single_final, src);
                std::string d3 = DU.diff(D3);
                if (!d3.empty())
                    R.violation("C09", "repeat_differs:" + d3.substr(0, d3.find_first_of("[:")), witness("same call repeated: " + d3));
                R.count("c09.repeated_calls_compared");
            }
            Hasher zh;
            zh.vec(cur.z);
            zh.vec(cur.mask);
            zh.vec(cur.bl);
            if (zh.h != last_z_hash)
                ++distinct_inputs;
            last_z_hash = zh.h;
            if (change_since_update && updates >= 2)
                ++changes_between;
            change_since_update = false;
            ch.pod(zh.h);
        };

        for (long ev = 0; ev < len; ++ev)
        {
            double u = rng.u01();
            if (u < 0.40 || ev == len - 1)
            {
                if (rng.chance(0.8))
                    cur.z = gen_field_spec(rng, env.g, env.R, pick_cls());
                trace.push_back("update_routes(" + std::string(cur.field_cls) + ")");
                do_update(rng.chance(0.3));
            }
            else if (u < 0.55)
            {
                // base levels: shrink / grow / re-order / restore / new
                std::vector<std::size_t> bl = cur.bl;
                double w = rng.u01();
                std::string what;
                if (w < 0.25 && bl.size() > 1)
                {
                    bl.erase(bl.begin() + static_cast<long>(rng.below(bl.size())));
                    what = "shrink";
                }
                else if (w < 0.5)
                {
                    bl.push_back(rng.below(env.R.n));
                    what = "grow";
                }
                else if (w < 0.7)
                {
                    bl = rng.pick(earlier_bl);
                    what = "restore_earlier";
                }
                else if (w < 0.85)
                {
                    what = "same_set_reordered";
                }
                else
                {
                    std::string cls;
                    gen_base_levels(rng, env.R, bl, cls);
                    what = "new:" + cls;
                }
                cur.bl = sorted_unique(bl);
                cur.custom_bl = true;
                fix_domain(rng, env.R, cur, false);
                if (!cur.mask.empty())
                    U.graph->set_mask(to_mask(env.g, cur.mask));  // fix_domain may have unmasked a base level
                std::vector<std::size_t> order = cur.bl;
                rng.shuffle(order);
                if (rng.chance(0.3))
                    order.push_back(order[rng.below(order.size())]);  // duplicate entry (set semantics)
                U.graph->set_base_levels(order);
                earlier_bl.push_back(cur.bl);
                trace.push_back("set_base_levels(" + what + ", n=" + std::to_string(cur.bl.size()) + ")");
                change_since_update = true;
                R.count("c09.event.set_base_levels");
            }
            else if (u < 0.68 && rng.chance(0.2))
            {
                // a mask of another shape is refused; the graph is then used as it is (no valid request repairs anything): the
                // mask in force is still the previous one, and the comparison with the fresh graph at the next update decides
                // whether the refused request left anything behind
                xt::xarray<bool> bad = xt::xarray<bool>::from_shape(mismatched_shape(env.g, rng));
                bad.fill(rng.chance(0.5));
                try
                {
                    if (rng.chance(0.5))
                        U.graph->set_mask(bad);
                    else
                        U.graph->set_mask(std::move(bad));
                    R.count("c09.mask_shape_mismatch_accepted");
                }
                catch (const std::runtime_error&)
                {
                    R.count("c09.mask_shape_mismatch_refused");
                }
                trace.push_back("set_mask(wrong shape, refused)");
            }
            else if (u < 0.68)
            {
                std::string cls;
                auto m = gen_mask(rng, env.g, env.R, cls);
                if (m.empty())
                    m.assign(env.R.n, 0);
                cur.mask = m;
                fix_domain(rng, env.R, cur, false);
                if (cur.custom_bl)
                    U.graph->set_base_levels(cur.bl);
                // the mask is handed over as a named array, a temporary or an element-wise expression
                {
                    xt::xarray<bool> named = to_mask(env.g, cur.mask);
                    const int how = static_cast<int>(rng.below(3));
                    if (how == 0)
                        U.graph->set_mask(named);
                    else if (how == 1)
                        U.graph->set_mask(to_mask(env.g, cur.mask));
                    else
                        U.graph->set_mask(named || xt::zeros<bool>(named.shape()));
                }
                trace.push_back("set_mask(" + cls + ")");
                change_since_update = true;
                R.count("c09.event.set_mask");
            }
            else if (u < 0.80)
            {
                // operator parameter changes through the shared operator pointers
                bool changed = false;
                for (std::size_t k = 0; k < ops.size(); ++k)
                {
                    if (ops[k].kind == OpKind::multi)
                    {
                        ops[k].p = rnd_p(rng);
                        U.multi(k)->m_slope_exp = ops[k].p;
                        trace.push_back("slope_exp=" + jnum(ops[k].p));
                        changed = true;
                        R.count("c09.event.slope_exp");
                    }
                    else if (ops[k].kind == OpKind::mst)
                    {
                        if (rng.chance(0.5))
                        {
                            ops[k].rm = rnd_rm(rng);
                            U.mst(k)->m_route_method = ops[k].rm;
                            trace.push_back(std::string("route_method=") + (ops[k].rm == fs::mst_route_method::basic ? "basic" : "carve"));
                            R.count("c09.event.route_method");
                        }
                        else
                        {
                            ops[k].bm = rnd_bm(rng);
                            U.mst(k)->m_basin_method = ops[k].bm;
                            trace.push_back(std::string("basin_method=") + (ops[k].bm == fs::mst_method::kruskal ? "kruskal" : "boruvka"));
                            R.count("c09.event.basin_method");
                        }
                        changed = true;
                    }
                }
                change_since_update = change_since_update || changed;
            }
            else if (u < 0.9)
            {
                if (updates > 0)
                {
                    (void) U.graph->accumulate(rng.uniform(0.0, 2.0));
                    trace.push_back("accumulate");
                    R.count("c09.event.accumulate");
                }
            }
            else
            {
                if (updates > 0)
                {
                    (void) U.graph->basins();
                    trace.push_back("basins");
                    R.count("c09.event.basins");
                }
            }
        }
        R.set_case_hash(ch.h);
        R.maxc("c09.history_length_max", len);
        if (distinct_inputs >= 2 && changes_between >= 1)
            R.nontrivial(true);
        if (R.want_sample())
            R.sample(JObj().raw("grid", env.g.json(30)).raw("operators", ops_json(ops)).raw("history", jarr(trace, [](const std::string& s) { return jstr(s); })).str());
    }

    // ------------------------------------------------------------------------------------ C16
    std::vector<OpSpec> gen_ops_c16(Rng& rng)
    {
        // base sequence, then 1-3 snapshots inserted at valid positions
        std::vector<OpSpec> ops;
        double u = rng.u01();
        if (u < 0.15)
            ops = { rnd_single(rng) };
        else if (u < 0.3)
            ops = { op_multi(rnd_p(rng)) };
        else if (u < 0.45)
            ops = { op_pflood(), rnd_single(rng) };
        else if (u < 0.55)
            ops = { op_pflood(), op_multi(rnd_p(rng)) };
        else if (u < 0.75)
            ops = { rnd_single(rng), op_mst(rnd_bm(rng), rnd_rm(rng)) };
        else if (u < 0.85)
            ops = { rnd_single(rng), op_mst(rnd_bm(rng), rnd_rm(rng)), op_multi(rnd_p(rng)) };
        else if (u < 0.93)
            ops = { rnd_single(rng), op_multi(rnd_p(rng)) };
        else
            ops = { op_multi(rnd_p(rng)), rnd_single(rng) };
        int k = static_cast<int>(rng.range(1, 3));
        for (int j = 0; j < k; ++j)
        {
            std::size_t pos = rng.below(ops.size() + 1);
            bool router_before = false;
            for (std::size_t q = 0; q < pos; ++q)
                if (ops[q].kind != OpKind::pflood && ops[q].kind != OpKind::snap)
                    router_before = true;
            bool g = router_before && rng.chance(0.8);
            bool e = !g || rng.chance(0.5);
            ops.insert(ops.begin() + static_cast<long>(pos), op_snap(std::string(j == 0 ? "zz" : (j == 1 ? "mm" : "aa")) + std::to_string(j), g, e));
        }
        return ops;
    }

    // observable state of a graph snapshot (also used to detect leaks between updates)
    Digest snapshot_digest(graph_t& sg, bool single, const Env& env, const std::vector<double>& src)
    {
        Digest D;
        GState SS = extract(sg.impl());
        digest_tables(D, SS);
        D.add_d("accumulate(1)", flat_vec(sg.accumulate(1.0)));
        D.add_d("accumulate(src)", flat_vec(sg.accumulate(to_arr(env.g, src))));
        if (single)
        {
            D.add_s("basins", flat_vec(sg.basins()));
            auto& p1 = sg.impl_ptr()->pits();
            D.add_s("pits", std::vector<std::size_t>(p1.begin(), p1.end()));
        }
        auto bl = sg.base_levels();
        std::sort(bl.begin(), bl.end());
        D.add_s("base_levels", bl);
        std::vector<std::size_t> mk;
        auto m = sg.mask();
        for (std::size_t i = 0; i < m.size(); ++i)
            mk.push_back(m.flat(i) ? 1 : 0);
        D.add_s("mask", mk);
        return D;
    }

    void c16_case(Runner& R, Rng& rng, std::size_t max_side)
    {
        Env env = make_env(rng, max_side);
        std::vector<OpSpec> ops = gen_ops_c16(rng);
        GraphBundle M = build_graph(*env.grid, ops);
        // prefix graphs (own grid objects), one per snapshot
        struct Prefix
        {
            std::size_t pos;
            OpSpec snap;
            std::vector<OpSpec> ops;
            bool completed;  // a router was appended to make the prefix constructible (elevation only)
            std::unique_ptr<grid_t> grid;
            GraphBundle gb;
            bool single;
            Digest last;  // digest of the snapshot right after the last update
        };
        std::vector<Prefix> prefixes;
        for (std::size_t k = 0; k < ops.size(); ++k)
        {
            if (ops[k].kind != OpKind::snap)
                continue;
            Prefix P;
            P.pos = k;
            P.snap = ops[k];
            for (std::size_t q = 0; q < k; ++q)
                if (ops[q].kind != OpKind::snap)
                    P.ops.push_back(ops[q]);
            bool router = false;
            for (auto& o : P.ops)
                if (o.kind != OpKind::pflood)
                    router = true;
            P.completed = !router;
            if (!router)
                P.ops.push_back(op_single());
            P.single = seq_final_single(P.ops);
            P.grid = make_grid(env.g);
            P.gb = build_graph(*P.grid, P.ops);
            prefixes.push_back(std::move(P));
        }
        const int nsteps = static_cast<int>(rng.range(2, 4));
        FlowInputs in;
        Hasher ch;
        env.g.hash_into(ch);
        for (auto& o : ops)
            o.hash_into(ch);
        std::vector<double> src(env.R.n);
        for (auto& v : src)
            v = rng.uniform(0.0, 2.0);
        std::vector<std::string> trace;
        for (int s = 0; s < nsteps; ++s)
        {
            if (s == 0)
            {
                int cls = static_cast<int>(rng.below(n_field_classes));
                in.field_cls = field_class_name(cls);
                in.z = gen_field_spec(rng, env.g, env.R, cls);
                in.mask = gen_mask(rng, env.g, env.R, in.mask_cls);
                in.custom_bl = gen_base_levels(rng, env.R, in.bl, in.bl_cls);
            }
            else
            {
                int cls = static_cast<int>(rng.below(n_field_classes));
                in.field_cls = field_class_name(cls);
                in.z = gen_field_spec(rng, env.g, env.R, cls);
                if (rng.chance(0.4))
                {
                    auto m = gen_mask(rng, env.g, env.R, in.mask_cls);
                    if (m.empty() && !in.mask.empty())
                        m.assign(env.R.n, 0);
                    in.mask = m;
                }
                if (rng.chance(0.4))
                    in.custom_bl = gen_base_levels(rng, env.R, in.bl, in.bl_cls) || in.custom_bl;
                for (std::size_t k = 0; k < ops.size(); ++k)
                    if (ops[k].kind == OpKind::multi && rng.chance(0.5))
                    {
                        ops[k].p = rnd_p(rng);
                        M.multi(k)->m_slope_exp = ops[k].p;
                        for (auto& P : prefixes)
                        {
                            std::size_t qi = 0;
                            for (std::size_t q = 0; q < P.pos; ++q)
                            {
                                if (ops[q].kind == OpKind::snap)
                                    continue;
                                if (q == k)
                                {
                                    P.ops[qi].p = ops[k].p;
                                    P.gb.multi(qi)->m_slope_exp = ops[k].p;
                                }
                                ++qi;
                            }
                        }
                    }
            }
            fix_domain(rng, env.R, in, false);
            hash_inputs(ch, in);
            trace.push_back("update(" + in.field_cls + "," + in.mask_cls + "," + in.bl_cls + ")");
            apply_inputs(*M.graph, env.g, in);
            if (s > 0)
            {
                // the new mask / base levels of the parent must not leak into a snapshot before the next update
                for (auto& P : prefixes)
                {
                    if (!P.snap.save_graph)
                        continue;
                    graph_t& sg = M.graph->graph_snapshot(P.snap.name);
                    Digest now = snapshot_digest(sg, P.single, env, src);
                    std::string d = P.last.diff(now);
                    if (!d.empty())
                        R.violation("C16", "snapshot_changed_before_next_update:" + d.substr(0, d.find_first_of("[:")),
                                    JObj()
                                        .raw("grid", env.g.json(200))
                                        .raw("operators", ops_json(ops))
                                        .s("snapshot", P.snap.label())
                                        .raw("history", jarr(trace, [](const std::string& x) { return jstr(x); }))
                                        .s("detail", "set_mask / set_base_levels on the parent graph changed the snapshot before update_routes: " + d)
                                        .str());
                    R.count("c16.snapshots_reread_before_next_update");
                }
            }
            arr_t zin = to_arr(env.g, in.z);
            const arr_t& hm = M.graph->update_routes(zin);
            (void) hm;
            R.count("c16.updates");
            for (auto& P : prefixes)
            {
                apply_inputs(*P.gb.graph, env.g, in);
                arr_t zp = to_arr(env.g, in.z);
                const arr_t& hp = P.gb.graph->update_routes(zp);
                std::vector<double> helev = flat_vec(hp);
                auto witness = [&](const std::string& detail)
                {
                    return JObj()
                        .raw("grid", env.g.json(200))
                        .raw("operators", ops_json(ops))
                        .s("snapshot", P.snap.label())
                        .raw("prefix_operators", ops_json(P.ops))
                        .raw("history", jarr(trace, [](const std::string& x) { return jstr(x); }))
                        .raw("inputs", inputs_json(in, 300))
                        .s("detail", detail)
                        .str();
                };
                if (P.snap.save_elev)
                {
                    const arr_t& es = M.graph->elevation_snapshot(P.snap.name);
                    auto ev = flat_vec(es);
                    bool same = ev.size() == helev.size();
                    for (std::size_t i = 0; same && i < ev.size(); ++i)
                        same = bits(ev[i]) == bits(helev[i]);
                    if (!same)
                        R.violation("C16", "elevation_snapshot_differs", witness("elevation snapshot differs from the elevation after the prefix"));
                    R.count("c16.elevation_snapshots_compared");
                }
                if (P.snap.save_graph)
                {
                    graph_t& sg = M.graph->graph_snapshot(P.snap.name);
                    GState SS = extract(sg.impl());
                    GState SP = extract(P.gb.graph->impl());
                    Digest DS, DP;
                    digest_tables(DS, SS);
                    digest_tables(DP, SP);
                    DS.add_d("accumulate(1)", flat_vec(sg.accumulate(1.0)));
                    DP.add_d("accumulate(1)", flat_vec(P.gb.graph->accumulate(1.0)));
                    arr_t sa = to_arr(env.g, src);
                    DS.add_d("accumulate(src)", flat_vec(sg.accumulate(sa)));
                    DP.add_d("accumulate(src)", flat_vec(P.gb.graph->accumulate(sa)));
                    if (P.single)
                    {
                        DS.add_s("basins", flat_vec(sg.basins()));
                        DP.add_s("basins", flat_vec(P.gb.graph->basins()));
                        auto& p1 = sg.impl_ptr()->pits();
                        auto& p2 = P.gb.graph->impl_ptr()->pits();
                        DS.add_s("pits", std::vector<std::size_t>(p1.begin(), p1.end()));
                        DP.add_s("pits", std::vector<std::size_t>(p2.begin(), p2.end()));
                    }
                    // kernel application (breadth-first, upstream: needs the copied traversal order)
                    std::vector<double> dummy(env.R.n, 0.0);
                    DS.add_d("kernel(breadth_upstream)", run_kernel(sg, fs::flow_graph_traversal_dir::breadth_upstream, 1, 0, 0, dummy));
                    DP.add_d("kernel(breadth_upstream)", run_kernel(*P.gb.graph, fs::flow_graph_traversal_dir::breadth_upstream, 1, 0, 0, dummy));
                    DS.add_d("kernel(depth_upstream)", run_kernel(sg, fs::flow_graph_traversal_dir::depth_upstream, 1, 0, 0, dummy));
                    DP.add_d("kernel(depth_upstream)", run_kernel(*P.gb.graph, fs::flow_graph_traversal_dir::depth_upstream, 1, 0, 0, dummy));
                    if (rng.chance(0.3))
                    {
                        // level-parallel application walks the snapshot's own level bounds with its own worker pool
                        const int nt = static_cast<int>(rng.range(2, 4));
                        DS.add_d("kernel(breadth_upstream, level-parallel)", run_kernel(sg, fs::flow_graph_traversal_dir::breadth_upstream, nt, 0, 0, dummy));
                        DP.add_d("kernel(breadth_upstream, level-parallel)", run_kernel(*P.gb.graph, fs::flow_graph_traversal_dir::breadth_upstream, 1, 0, 0, dummy));
                        R.count("c16.parallel_kernels_on_snapshots");
                    }
                    std::string d = DS.diff(DP);
                    if (!d.empty())
                        R.violation("C16", "graph_snapshot_differs:" + d.substr(0, d.find_first_of("[:")), witness("snapshot vs graph running only the prefix: " + d));
                    R.count("c16.graph_snapshots_compared");
                    P.last = snapshot_digest(sg, P.single, env, src);
                    if (SS.W == 1)
                        R.count("c16.single_flow_snapshots");
                    else
                        R.count("c16.multi_flow_snapshots");
                    // snapshot must refuse every mutating call
                    auto refused = [&](const char* what, auto&& call)
                    {
                        bool threw = false;
                        try
                        {
                            call();
                        }
                        catch (const std::exception&)
                        {
                            threw = true;
                        }
                        if (!threw)
                            R.violation("C16", std::string("snapshot_accepts_") + what, witness(std::string(what) + " on a snapshot graph did not fail"));
                        R.count("c16.refusals_checked");
                    };
                    refused("update_routes", [&]() { arr_t zz = to_arr(env.g, in.z); sg.update_routes(zz); });
                    refused("set_base_levels", [&]() { sg.set_base_levels(std::vector<std::size_t>{ 0 }); });
                    refused("set_mask", [&]() { sg.set_mask(to_mask(env.g, std::vector<std::uint8_t>(env.R.n, 0))); });
                }
            }
        }
        R.set_case_hash(ch.h);
        R.nontrivial(!prefixes.empty() && nsteps >= 2);
        if (R.want_sample())
            R.sample(JObj().raw("grid", env.g.json(30)).raw("operators", ops_json(ops)).raw("history", jarr(trace, [](const std::string& x) { return jstr(x); })).str());
    }

    // ------------------------------------------------------------------------------------ C20
    // alphabet: 0 single, 1 single(4 threads), 2 multi, 3 pflood, 4 mst, 5 graph snapshot, 6 elevation snapshot
    constexpr int c20_alpha = 7;

    std::size_t c20_total()
    {
        return 7 + 49 + 343 + 2401;
    }

    std::vector<int> c20_decode(std::size_t t)
    {
        std::size_t len = 1, block = 7;
        while (t >= block)
        {
            t -= block;
            block *= 7;
            ++len;
        }
        std::vector<int> v(len);
        for (std::size_t i = 0; i < len; ++i)
        {
            v[len - 1 - i] = static_cast<int>(t % 7);
            t /= 7;
        }
        return v;
    }

    struct C20Ref
    {
        bool accept = true;
        std::string reason;
        int dir = 0;  // 0 undefined, 1 single, 2 multi
        bool graph_updated = false, elev_updated = false, all_single = true;
        std::vector<std::string> gkeys, ekeys;
    };

    C20Ref c20_reference(const std::vector<int>& seq)
    {
        C20Ref r;
        for (std::size_t i = 0; i < seq.size(); ++i)
        {
            // names whose lexicographic order differs from the order in which they are given
            static const char* const names[] = { "zeta", "mid", "alpha", "omega", "beta" };
            std::string name = names[i % 5];
            switch (seq[i])
            {
                case 0:
                case 1:
                    r.graph_updated = true;
                    r.dir = 1;
                    break;
                case 2:
                    r.graph_updated = true;
                    r.dir = 2;
                    r.all_single = false;
                    break;
                case 3:
                    r.elev_updated = true;
                    break;
                case 4:
                    if (r.dir != 1)
                    {
                        r.accept = false;
                        r.reason = "mst resolver needs single direction input";
                        return r;
                    }
                    r.graph_updated = true;
                    r.elev_updated = true;
                    r.dir = 1;
                    break;
                case 5:
                    if (r.dir == 0)
                    {
                        r.accept = false;
                        r.reason = "graph snapshot before any router";
                        return r;
                    }
                    r.gkeys.push_back(name);
                    break;
                case 6:
                    r.ekeys.push_back(name);
                    break;
            }
        }
        if (!r.graph_updated || r.dir == 0)
        {
            r.accept = false;
            r.reason = "no operator updates the graph / defines a direction";
        }
        return r;
    }

    std::vector<OpSpec> c20_ops(const std::vector<int>& seq)
    {
        std::vector<OpSpec> ops;
        for (std::size_t i = 0; i < seq.size(); ++i)
        {
            static const char* const names[] = { "zeta", "mid", "alpha", "omega", "beta" };
            std::string name = names[i % 5];
            switch (seq[i])
            {
                case 0:
                    ops.push_back(op_single());
                    break;
                case 1:
                    ops.push_back(op_single_par(4));
                    break;
                case 2:
                    ops.push_back(op_multi(1.0));
                    break;
                case 3:
                    ops.push_back(op_pflood());
                    break;
                case 4:
                    ops.push_back(op_mst(i % 2 ? fs::mst_method::kruskal : fs::mst_method::boruvka, (i / 2) % 2 ? fs::mst_route_method::basic : fs::mst_route_method::carve));
                    break;
                case 5:
                    ops.push_back(op_snap(name, true, false));
                    break;
                default:
                    ops.push_back(op_snap(name, false, true));
                    break;
            }
        }
        return ops;
    }

    void c20_case(Runner& R, Rng& rng, std::size_t t)
    {
        std::vector<int> seq = c20_decode(t);
        C20Ref ref = c20_reference(seq);
        std::vector<OpSpec> ops = c20_ops(seq);
        Hasher h;
        h.str(grid_name);
        h.vec(seq);
        R.set_case_hash(h.h);
        R.nontrivial(true);
        R.count("c20.sequences");
        R.count("c20.length." + std::to_string(seq.size()));
        Env env = make_env(rng, 6);
        auto witness = [&](const std::string& d)
        { return JObj().raw("operators", ops_json(ops)).raw("grid", env.g.json(100)).s("detail", d).str(); };
        GraphBundle gb;
        bool built = false;
        std::string what;
        try
        {
            if (ref.accept && rng.chance(0.3))
            {
                // through a sequence object that first held another valid sequence (other snapshots, other direction)
                static const std::vector<std::vector<OpSpec>> previous = {
                    { op_single(), op_snap("zeta", true, true), op_multi(1.0), op_snap("mid", true, false) },
                    { op_multi(2.0), op_snap("alpha", true, false), op_single(), op_snap("omega", true, true) },
                    { op_pflood(), op_single() },
                };
                gb = build_graph_via_reassigned_sequence(*env.grid, ops, previous[rng.below(previous.size())]);
                R.count("c20.built_through_reassigned_sequence");
            }
            else
                gb = build_graph(*env.grid, ops);
            built = true;
        }
        catch (const std::exception& e)
        {
            what = e.what();
        }
        if (!ref.accept)
        {
            R.count("c20.rejections_expected");
            if (built)
                R.violation("C20", "accepted_invalid_sequence", witness("expected rejection: " + ref.reason));
            return;
        }
        if (!built)
        {
            R.violation("C20", "rejected_valid_sequence", witness("construction threw: " + what));
            return;
        }
        R.count("c20.accepted");
        graph_t& graph = *gb.graph;
        if (graph.single_flow() != (ref.dir == 1))
            R.violation("C20", "reported_direction", witness(std::string("single_flow()=") + (graph.single_flow() ? "true" : "false")));
        std::size_t W = graph.impl().receivers().shape()[1];
        std::size_t want_w = ref.all_single ? 1 : grid_t::n_neighbors_max();
        if (W != want_w)
            R.violation("C20", "receivers_width", witness("receivers width " + std::to_string(W) + " expected " + std::to_string(want_w)));
        if (graph.graph_snapshot_keys() != ref.gkeys)
            R.violation("C20", "graph_snapshot_keys", witness("graph_snapshot_keys() differ"));
        if (graph.elevation_snapshot_keys() != ref.ekeys)
            R.violation("C20", "elevation_snapshot_keys", witness("elevation_snapshot_keys() differ"));
        if (graph.operators().size() != ops.size())
            R.violation("C20", "operators_list", witness("operators().size()=" + std::to_string(graph.operators().size())));
        else
        {
            static const char* names[] = { "single_flow_router", "single_flow_router", "multi_flow_router", "pflood_sink_resolver", "mst_sink_resolver", "flow_snapshot", "flow_snapshot" };
            for (std::size_t i = 0; i < seq.size(); ++i)
                if (graph.operators()[i]->name() != names[seq[i]])
                    R.violation("C20", "operators_list", witness("operator " + std::to_string(i) + " is " + graph.operators()[i]->name()));
        }
        for (auto& k : ref.gkeys)
        {
            // snapshot graphs exist and are single-column exactly when the state at that point is single
            graph_t& sg = graph.graph_snapshot(k);
            (void) sg;
        }
        // execute once on a small field: declared effect on the returned array + C06 invariants
        FlowInputs in;
        int cls = static_cast<int>(rng.below(n_field_classes));
        in.field_cls = field_class_name(cls);
        in.z = gen_field_spec(rng, env.g, env.R, cls);
        in.custom_bl = gen_base_levels(rng, env.R, in.bl, in.bl_cls);
        fix_domain(rng, env.R, in, true);
        apply_inputs(graph, env.g, in);
        arr_t zin = to_arr(env.g, in.z);
        const arr_t& out = graph.update_routes(zin);
        bool same_array = (&out == &zin);
        if (same_array != !ref.elev_updated)
            R.violation("C20", "returned_array_identity", witness(std::string("update_routes returned ") + (same_array ? "the caller's array" : "another array") + " but elevation_updated=" + (ref.elev_updated ? "true" : "false")));
        if (!ref.elev_updated)
            R.count("c20.returned_callers_array");
        else
            R.count("c20.returned_own_copy");
        GState S = extract(graph.impl());
        if (!S.shapes_ok)
            R.violation("C20", "table_shapes", witness(S.shape_problem));
        else
        {
            C06Stats st;
            for (auto& kv : c06_violations(S, st))
                R.violation("C20", "executed_state_inconsistent:" + kv.first, witness(kv.second));
            // single-column state must have single receivers everywhere
            if (ref.dir == 1)
                for (std::size_t i = 0; i < S.n; ++i)
                    if (S.rec_count[i] != 1)
                    {
                        R.violation("C20", "single_direction_state_has_multiple_receivers", witness("node " + std::to_string(i)));
                        break;
                    }
        }
        for (auto& k : ref.ekeys)
            if (graph.elevation_snapshot(k).size() != env.R.n)
                R.violation("C20", "elevation_snapshot_shape", witness(k));
        R.count("c20.executed");
        if (R.want_sample())
            R.sample(JObj().raw("operators", ops_json(ops)).b("accepted", true).i("final_direction", ref.dir).str());
    }
}

#ifdef VF_FUZZ
extern "C" int
LLVMFuzzerTestOneInput(const std::uint8_t* data, std::size_t size)
{
    return fuzz_one("h_hist", grid_name, "C09", data, size,
                    [](Runner& R, Rng& rng, const std::string& prop)
                    {
                        if (prop == "C16" || (prop == "all" && rng.chance(0.5)))
                            c16_case(R, rng, 7);
                        else
                            c09_case(R, rng, 7, 8);
                    });
}
#else
int
main(int argc, char** argv)
{
    Args a = parse_args(argc, argv);
    const bool thorough = a.tier == "thorough";
    std::size_t max_side = a.maxn ? static_cast<std::size_t>(a.maxn) : (thorough ? 16 : 9);
    const std::string prop = a.prop;
    if (prop == "C20" || prop == "all")
    {
        // exhaustive enumeration, partitioned over the shards
        Args a2 = a;
        const std::size_t total = c20_total();
        std::size_t ns = static_cast<std::size_t>(a.nshards), s = static_cast<std::size_t>(a.shard);
        std::size_t local = total / ns + (s < total % ns ? 1 : 0);
        long n_other = prop == "all" ? a.cases : 0;
        a2.cases = static_cast<long>(local) + n_other;
        Runner R(a2, "h_hist", grid_name);
        R.maxc("enum_total_all_shards", static_cast<long>(total));
        return run_cases(R,
                         "hist:" + prop,
                         [&](Runner& R_, Rng& rng, long k)
                         {
                             if (static_cast<std::size_t>(k) < local)
                             {
                                 std::size_t t = static_cast<std::size_t>(k) * ns + s;
                                 R_.count("enumerated_cases");
                                 c20_case(R_, rng, t);
                             }
                             else if (k % 2)
                                 c09_case(R_, rng, max_side, thorough ? 40 : 14);
                             else
                                 c16_case(R_, rng, max_side);
                         });
    }
    Runner R(a, "h_hist", grid_name);
    return run_cases(R,
                     "hist:" + prop,
                     [&](Runner& R_, Rng& rng, long)
                     {
                         if (prop == "C09")
                             c09_case(R_, rng, max_side, thorough ? 40 : 14);
                         else
                             c16_case(R_, rng, max_side);
                     });
}
#endif
