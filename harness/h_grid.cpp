// h_grid: C07 (neighbourhoods vs geometry, all accessors, cache/no-cache, query order),
//         C17 (status composition, admissibility, filtered iteration, default base levels),
//         C18 (triangular mesh connectivity / boundary / areas).
// One grid type per binary (-DVG_<KIND>). See /verif/DESIGN.md section 5.
#include <algorithm>
#include <numeric>
#include <thread>

#include "common/gridkinds.hpp"

#include "fastscapelib/flow/flow_graph.hpp"
#include "fastscapelib/flow/flow_router.hpp"

using namespace vf;

namespace
{
    using size_type = grid_t::size_type;

    bool near_ulp(double a, double b, int ulps)
    {
        if (a == b)
            return true;
        if (!std::isfinite(a) || !std::isfinite(b))
            return false;
        std::int64_t d = ord_diff(a, b);
        if (d < 0)
            d = -d;
        return d <= ulps;
    }

    struct NbRec
    {
        std::size_t idx;
        double dist;
        bool operator<(const NbRec& o) const
        {
            return idx != o.idx ? idx < o.idx : dist < o.dist;
        }
    };

    // multiset comparison of (idx, dist) lists, distances within `ulps`
    bool same_multiset(std::vector<NbRec> a, std::vector<NbRec> b, int ulps)
    {
        if (a.size() != b.size())
            return false;
        std::sort(a.begin(), a.end());
        std::sort(b.begin(), b.end());
        for (std::size_t i = 0; i < a.size(); ++i)
            if (a[i].idx != b[i].idx || !near_ulp(a[i].dist, b[i].dist, ulps))
                return false;
        return true;
    }

    std::string nb_json(const std::vector<NbRec>& v)
    {
        return jarr(v, [](const NbRec& r) { return "[" + std::to_string(r.idx) + "," + jnum(r.dist) + "]"; });
    }

    // ------------------------------------------------------------------------------- C07
    // Query node `i` of `grid` through every accessor and compare with the reference.
    // `kindmask` selects which accessor kinds are exercised at this visit (bit 0 count, 1 indices,
    // 2 indices in place, 3 distances, 4 neighbors, 5 neighbors in place, 6 raster (row,col)).
    template <class G>
    struct C07CtxT
    {
        Runner& R;
        const GridSpec& spec;
        const RefGeom& ref;
        G& grid;
        typename G::neighbors_indices_type buf_idx;
        typename G::neighbors_type buf_nb;
        // reused output buffers of the raster (row, col) in-place overloads (flat (row, col, idx, dist, status) records)
        std::vector<std::pair<std::size_t, std::size_t>> buf_rc_idx;
        std::vector<fs::raster_neighbor> buf_rc_nb;
        long checks = 0;
        // what the library reported (for the symmetry check)
        std::vector<std::vector<std::size_t>> seen;
        const char* order_name = "";

        void fail(const std::string& key, std::size_t i, const std::string& detail)
        {
            R.violation("C07",
                        key,
                        JObj()
                            .raw("grid", spec.json())
                            .i("node", i)
                            .s("query_order", order_name)
                            .raw("expected", nb_json(refrec(i)))
                            .s("detail", detail)
                            .str());
        }

        std::vector<NbRec> refrec(std::size_t i) const
        {
            std::vector<NbRec> v;
            for (auto& n : ref.adj[i])
                v.push_back({ n.idx, n.dist });
            return v;
        }

        void visit(std::size_t i, unsigned kindmask)
        {
            const auto expect = refrec(i);
            const int ulps = 2;
            std::vector<std::size_t> idx_list;
            bool have_idx = false;
            if (kindmask & 1u)
            {
                ++checks;
                auto c = grid.neighbors_count(i);
                if (c != expect.size())
                    fail("count", i, "neighbors_count=" + std::to_string(c));
            }
            if (kindmask & 2u)
            {
                ++checks;
                auto v = grid.neighbors_indices(i);
                std::vector<NbRec> got;
                for (auto x : v)
                {
                    got.push_back({ x, 0 });
                    idx_list.push_back(x);
                }
                have_idx = true;
                auto e0 = expect;
                for (auto& e : e0)
                    e.dist = 0;
                if (!same_multiset(got, e0, 0))
                    fail("indices", i, "neighbors_indices=" + nb_json(got));
            }
            if (kindmask & 4u)
            {
                ++checks;
                auto& v = grid.neighbors_indices(i, buf_idx);
                std::vector<NbRec> got;
                std::vector<std::size_t> l2;
                for (auto x : v)
                {
                    got.push_back({ x, 0 });
                    l2.push_back(x);
                }
                auto e0 = expect;
                for (auto& e : e0)
                    e.dist = 0;
                if (!same_multiset(got, e0, 0))
                    fail("indices_inplace", i, "neighbors_indices(i,buf)=" + nb_json(got));
                if (have_idx && l2 != idx_list)
                    fail("accessors_disagree", i, "indices vs indices in place");
                if (!have_idx)
                {
                    idx_list = l2;
                    have_idx = true;
                }
            }
            std::vector<double> dist_list;
            bool have_dist = false;
            if (kindmask & 8u)
            {
                ++checks;
                auto d = grid.neighbors_distances(i);
                for (auto x : d)
                    dist_list.push_back(x);
                have_dist = true;
                if (dist_list.size() != expect.size())
                    fail("distances", i, "neighbors_distances size=" + std::to_string(dist_list.size()));
                else if (have_idx)
                {
                    std::vector<NbRec> got;
                    for (std::size_t k = 0; k < dist_list.size(); ++k)
                        got.push_back({ idx_list[k], dist_list[k] });
                    if (!same_multiset(got, expect, ulps))
                        fail("distances", i, "indices+distances=" + nb_json(got));
                }
            }
            auto check_nb = [&](const typename G::neighbors_type& nb, const char* what)
            {
                ++checks;
                std::vector<NbRec> got;
                for (auto& n : nb)
                {
                    got.push_back({ n.idx, n.distance });
                    if (n.idx < ref.n && n.status != ref.status[n.idx])
                        fail("status", i, std::string(what) + ": neighbor " + std::to_string(n.idx) + " status "
                                             + ns_name(n.status) + " expected " + ns_name(ref.status[n.idx]));
                }
                if (!same_multiset(got, expect, ulps))
                    fail(what, i, std::string(what) + "=" + nb_json(got));
                if (have_idx && got.size() == idx_list.size())
                    for (std::size_t k = 0; k < got.size(); ++k)
                        if (got[k].idx != idx_list[k])
                        {
                            fail("accessors_disagree", i, std::string(what) + " vs indices (position)");
                            break;
                        }
                if (have_dist && got.size() == dist_list.size())
                    for (std::size_t k = 0; k < got.size(); ++k)
                        if (got[k].dist != dist_list[k])
                        {
                            fail("accessors_disagree", i, std::string(what) + " vs distances (position)");
                            break;
                        }
                if (!have_idx)
                {
                    for (auto& g : got)
                        idx_list.push_back(g.idx);
                    have_idx = true;
                }
            };
            if (kindmask & 16u)
            {
                auto nb = grid.neighbors(i);
                check_nb(nb, "neighbors");
            }
            if (kindmask & 32u)
            {
                auto& nb = grid.neighbors(i, buf_nb);
                check_nb(nb, "neighbors_inplace");
            }
            if constexpr (family == Family::raster)
            {
                if (kindmask & 64u)
                {
                    ++checks;
                    std::size_t r = i / spec.cols, c = i % spec.cols;
                    auto rc = grid.neighbors_indices(r, c);
                    std::vector<NbRec> got;
                    bool rc_ok = true;
                    for (auto& p : rc)
                    {
                        if (p.first >= spec.rows || p.second >= spec.cols)
                            rc_ok = false;
                        got.push_back({ p.first * spec.cols + p.second, 0 });
                    }
                    auto e0 = expect;
                    for (auto& e : e0)
                        e.dist = 0;
                    if (!rc_ok || !same_multiset(got, e0, 0))
                        fail("raster_indices", i, "neighbors_indices(r,c)=" + nb_json(got));
                    auto rn = grid.neighbors(r, c);
                    std::vector<NbRec> got2;
                    for (auto& n : rn)
                    {
                        got2.push_back({ n.flatten_idx, n.distance });
                        if (n.row * spec.cols + n.col != n.flatten_idx || n.row >= spec.rows || n.col >= spec.cols)
                            fail("raster_neighbors", i, "row/col do not match flatten_idx");
                        if (n.flatten_idx < ref.n && n.status != ref.status[n.flatten_idx])
                            fail("status", i, "neighbors(r,c): wrong status");
                    }
                    if (!same_multiset(got2, expect, ulps))
                        fail("raster_neighbors", i, "neighbors(r,c)=" + nb_json(got2));
                    if (have_idx && got2.size() == idx_list.size())
                        for (std::size_t k = 0; k < got2.size(); ++k)
                            if (got2[k].idx != idx_list[k])
                            {
                                fail("accessors_disagree", i, "neighbors(r,c) vs indices (position)");
                                break;
                            }
                }
                if (kindmask & 64u)
                {
                    // in-place (row, col) overloads, output containers reused from visit to visit (they hold
                    // whatever the previous node left in them)
                    ++checks;
                    std::size_t r = i / spec.cols, c = i % spec.cols;
                    auto& rc2 = grid.neighbors_indices(r, c, buf_rc_idx);
                    std::vector<NbRec> got3;
                    for (auto& p : rc2)
                        got3.push_back({ (p.first < spec.rows && p.second < spec.cols) ? p.first * spec.cols + p.second : SIZE_MAX, 0 });
                    auto e0 = expect;
                    for (auto& e : e0)
                        e.dist = 0;
                    if (!same_multiset(got3, e0, 0))
                        fail("raster_indices_inplace", i, "neighbors_indices(r,c,out)=" + nb_json(got3));
                    auto& rn2 = grid.neighbors(r, c, buf_rc_nb);
                    std::vector<NbRec> got4;
                    for (auto& n : rn2)
                    {
                        got4.push_back({ n.flatten_idx, n.distance });
                        if (n.row * spec.cols + n.col != n.flatten_idx)
                            fail("raster_neighbors_inplace", i, "row/col do not match flatten_idx");
                        if (n.flatten_idx < ref.n && n.status != ref.status[n.flatten_idx])
                            fail("status", i, "neighbors(r,c,out): wrong status");
                    }
                    if (!same_multiset(got4, expect, ulps))
                        fail("raster_neighbors_inplace", i, "neighbors(r,c,out)=" + nb_json(got4));
                }
            }
            if (have_idx)
                seen[i] = idx_list;
        }
    };

    // run `n_orders` query plans over the same grid object (so later plans see the state left by
    // earlier ones: populated cache, scratch buffers, ...)
    void c07_run_orders(Runner& R, Rng& rng, const GridSpec& spec, const RefGeom& ref, grid_t& grid, int n_orders)
    {
        C07CtxT<grid_t> ctx{ R, spec, ref, grid, {}, {}, {}, {}, 0, {}, "" };
        const std::size_t n = ref.n;
        static const char* names[] = { "forward", "reverse", "random", "repeated", "interleaved", "two_grids", "other_thread" };
        constexpr int n_names = 7;
        int first = static_cast<int>(rng.below(n_names));
        // a decoy grid of the same type (different shape): its queries must not disturb `grid`
        std::unique_ptr<grid_t> decoy;
        std::size_t decoy_n = 0;
        for (int oi = 0; oi < n_orders; ++oi)
        {
            int o = (first + oi) % n_names;
            ctx.order_name = names[o];
            ctx.seen.assign(n, {});
            std::vector<std::size_t> order(n);
            std::iota(order.begin(), order.end(), std::size_t(0));
            if (o == 1)
                std::reverse(order.begin(), order.end());
            else if (o == 2)
                rng.shuffle(order);
            else if (o == 3)
            {
                std::vector<std::size_t> o2;
                for (auto i : order)
                {
                    o2.push_back(i);
                    o2.push_back(i);
                    o2.push_back(rng.below(n));
                }
                order = o2;
            }
            if (o == 5 && !decoy)
            {
                GridSpec d = spec;
                d.overrides.clear();
                d.rows = family == Family::raster ? spec.rows + 1 + rng.below(3) : 1;
                d.cols = spec.cols + 2 + rng.below(3);
                decoy = make_grid(d);
                decoy_n = d.size();
            }
            if (o == 6)
            {
                // first half of the visits from another thread (joined before the rest is done here)
                std::vector<unsigned> masks;
                for (std::size_t k = 0; k < order.size(); ++k)
                    masks.push_back(static_cast<unsigned>(rng.below(0x7f)) + 1u);
                std::size_t half = order.size() / 2;
                for (std::size_t k = 0; k < half; ++k)
                    ctx.visit(order[k], masks[k]);
                std::thread th(
                    [&]()
                    {
                        for (std::size_t k = 0; k < order.size(); ++k)
                            ctx.visit(order[k], masks[k] | 2u);
                    });
                th.join();
                for (std::size_t k = half; k < order.size(); ++k)
                    ctx.visit(order[k], 0x7f);
            }
            else
                for (auto i : order)
                {
                    unsigned mask = 0x7f;
                    if (o == 4)
                    {
                        // interleave accessor kinds: a random non-empty subset per visit
                        mask = static_cast<unsigned>(rng.below(0x7f)) + 1u;
                    }
                    ctx.visit(i, mask);
                    if (o == 5)
                    {
                        // query the decoy grid, then the same node again
                        std::size_t j = rng.below(decoy_n);
                        switch (rng.below(3))
                        {
                            case 0:
                                (void) decoy->neighbors_indices(j);
                                break;
                            case 1:
                                (void) decoy->neighbors(j);
                                break;
                            default:
                                (void) decoy->neighbors_count(j);
                                break;
                        }
                        ctx.visit(i, static_cast<unsigned>(rng.below(0x7f)) + 1u);
                    }
                }
            // symmetry of what the library reported (multiplicity included)
            bool all_seen = true;
            for (std::size_t i = 0; i < n; ++i)
                if (ctx.seen[i].empty() && !ref.adj[i].empty())
                    all_seen = false;
            if (all_seen)
            {
                for (std::size_t i = 0; i < n; ++i)
                    for (auto j : ctx.seen[i])
                    {
                        if (j >= n)
                            continue;
                        auto cnt_ij = std::count(ctx.seen[i].begin(), ctx.seen[i].end(), j);
                        auto cnt_ji = std::count(ctx.seen[j].begin(), ctx.seen[j].end(), i);
                        if (cnt_ij != cnt_ji)
                        {
                            ctx.fail("asymmetric", i, "neighbor " + std::to_string(j) + " not symmetric");
                            break;
                        }
                    }
                R.count("c07.symmetry_checks");
            }
            R.count(std::string("c07.order.") + names[o]);
            if (grid_cached)
                R.maxc("c07.cache_used_max", static_cast<long>(grid.neighbors_indices_cache().cache_used()));
        }
        R.count("c07.accessor_checks", ctx.checks);
        R.count("c07.nodes_queried", static_cast<long>(n) * n_orders);
    }

    struct EnumSpace
    {
        std::vector<std::array<std::size_t, 2>> shapes;
        std::vector<std::array<double, 2>> spacings;
        std::size_t n_border;  // 256 or 16
        std::size_t total() const
        {
            return shapes.size() * spacings.size() * n_border;
        }
    };

    EnumSpace c07_space()
    {
        EnumSpace E;
        if (family == Family::profile)
        {
            for (std::size_t s = 2; s <= 12; ++s)
                E.shapes.push_back({ { 1, s } });
            E.spacings = { { { 1, 1 } }, { { 1, 0.3 } }, { { 1, 7 } } };
            E.n_border = 16;
        }
        else
        {
            for (std::size_t r = 2; r <= 6; ++r)
                for (std::size_t c = 2; c <= 6; ++c)
                    E.shapes.push_back({ { r, c } });
            E.shapes.push_back({ { 2, 9 } });
            E.shapes.push_back({ { 9, 2 } });
            E.shapes.push_back({ { 7, 11 } });
            E.spacings = { { { 1, 1 } }, { { 2, 0.5 } }, { { 0.3, 7 } } };
            E.n_border = 256;
        }
        return E;
    }

    GridSpec spec_from_enum(const EnumSpace& E, std::size_t t)
    {
        GridSpec g;
        std::size_t b = t % E.n_border;
        t /= E.n_border;
        auto sp = E.spacings[t % E.spacings.size()];
        t /= E.spacings.size();
        auto sh = E.shapes[t];
        g.rows = sh[0];
        g.cols = sh[1];
        g.dy = sp[0];
        g.dx = sp[1];
        if (family == Family::profile)
            g.border = { { all_status[b % 4], all_status[(b / 4) % 4], NS::core, NS::core } };
        else
            g.border = { { all_status[b % 4], all_status[(b / 4) % 4], all_status[(b / 16) % 4], all_status[(b / 64) % 4] } };
        return g;
    }

    // construct; returns nullptr when the library throws a std::exception
    std::unique_ptr<grid_t> try_make(const GridSpec& g, std::string& what)
    {
        try
        {
            return make_grid(g);
        }
        catch (const std::exception& e)
        {
            what = std::string(typeid(e).name()) + ": " + e.what();
            return nullptr;
        }
    }

    void add_random_overrides(Rng& rng, GridSpec& g, const RefGeom& base)
    {
        long k = rng.range(1, 4);
        for (long j = 0; j < k; ++j)
        {
            std::size_t rr = rng.below(g.rows), cc = rng.below(g.cols);
            if (base.status[rr * g.cols + cc] == NS::looped)
                continue;
            g.overrides.push_back({ { { rr, cc } }, all_status[rng.below(3)] });
        }
    }

    void c07_case_structured(Runner& R, Rng& rng, GridSpec g, bool with_overrides, int n_orders)
    {
        RefGeom ref = ref_geom(g);
        if (ref.valid && with_overrides)
        {
            add_random_overrides(rng, g, ref);
            ref = ref_geom(g);
        }
        Hasher h;
        g.hash_into(h);
        R.set_case_hash(h.h);
        std::string what;
        auto grid = try_make(g, what);
        if (!ref.valid)
        {
            R.count("c07.inadmissible_specs");
            if (grid && R.want("C17"))
                R.violation("C17", "accepted_invalid", JObj().raw("grid", g.json()).s("reason", ref.invalid_reason).str());
            return;
        }
        if (!grid)
        {
            R.violation("C07", "rejected_valid", JObj().raw("grid", g.json()).s("what", what).str());
            return;
        }
        R.nontrivial(true);
        R.count("c07.grids");
        if (spec_looped_h(g) || spec_looped_v(g))
            R.count("c07.grids_looped");
        if ((spec_looped_h(g) && g.cols == 2) || (spec_looped_v(g) && g.rows == 2))
            R.count("c07.grids_looped_size2_axis");
        if (R.want_sample())
            R.sample(JObj().raw("grid", g.json()).i("query_orders", n_orders).str());
        c07_run_orders(R, rng, g, ref, *grid, n_orders);
        if (rng.chance(0.08))
        {
            // grids are values: a copy of a (partly queried) grid, and a grid object that described another geometry with the
            // same number of nodes and was queried before being assigned this one, are this grid
            grid_t copy(*grid);
            c07_run_orders(R, rng, g, ref, copy, 1);
            GridSpec og = g;
            og.overrides.clear();
            if (family == Family::raster && g.rows != g.cols)
                std::swap(og.rows, og.cols);
            og.border = { { NS::core, NS::core, NS::fixed_value, NS::fixed_value } };
            if (family == Family::profile)
                og.border = { { NS::fixed_gradient, NS::fixed_gradient, NS::core, NS::core } };
            og.dx = g.dx * 3.0;
            std::string w2;
            auto other = try_make(og, w2);
            if (other)
            {
                RefGeom oref = ref_geom(og);
                c07_run_orders(R, rng, og, oref, *other, 1);
                *other = *grid;
                c07_run_orders(R, rng, g, ref, *other, 1);
                R.count("c07.assigned_grids_checked");
            }
            R.count("c07.copied_grids_checked");
        }
    }

    // wide grids: every column count in a range (the (row, col) accessors convert flat indices back to rows and
    // columns; few rows keep it cheap)
    void c07_case_wide(Runner& R, Rng& rng, std::size_t ncols)
    {
        if (family != Family::raster)
            return;
        GridSpec g;
        g.rows = 2 + rng.below(2);
        g.cols = ncols;
        g.dy = rng.chance(0.5) ? 1.0 : rng.logu(0.05, 50.0);
        g.dx = rng.chance(0.5) ? g.dy : rng.logu(0.05, 50.0);
        NS l = rand_border(rng, true), r = rand_border(rng, true), t = rand_border(rng, true), b = rand_border(rng, true);
        if (l == NS::looped || r == NS::looped)
            l = r = NS::looped;
        if (t == NS::looped || b == NS::looped)
            t = b = NS::looped;
        g.border = { { l, r, t, b } };
        R.count("c07.wide_grids");
        c07_case_structured(R, rng, g, false, 1);
    }

    // one axis longer than 32 768 / 65 536 nodes (narrow index or offset types), the long axis looped half of the time: profiles of
    // 66-140 k nodes, rasters of 2-3 x 33-70 k nodes and their transposes
    void c07_case_long_axis(Runner& R, Rng& rng)
    {
        GridSpec g;
        const std::size_t longn = static_cast<std::size_t>(rng.chance(0.5) ? rng.range(32769, 36000) : rng.range(65537, 70000));
        const bool loop_long = rng.chance(0.6);
        g.dy = rng.chance(0.5) ? 1.0 : rng.logu(0.05, 50.0);
        g.dx = rng.chance(0.5) ? g.dy : rng.logu(0.05, 50.0);
        if (family == Family::profile)
        {
            g.rows = 1;
            g.cols = longn * 2;
            NS e = loop_long ? NS::looped : rand_border(rng, false);
            g.border = { { e, loop_long ? NS::looped : rand_border(rng, false), NS::core, NS::core } };
        }
        else
        {
            const bool wide = rng.chance(0.5);
            g.rows = wide ? 2 + rng.below(2) : longn;
            g.cols = wide ? longn : 2 + rng.below(2);
            NS lr = (loop_long && wide) ? NS::looped : rand_border(rng, false);
            NS tb = (loop_long && !wide) ? NS::looped : rand_border(rng, false);
            g.border = { { lr, lr == NS::looped ? NS::looped : rand_border(rng, false), tb, tb == NS::looped ? NS::looped : rand_border(rng, false) } };
        }
        R.count("c07.long_axis_grids");
        c07_case_structured(R, rng, g, false, 1);
    }

    void c07_case_random(Runner& R, Rng& rng, std::size_t max_side)
    {
        GridGenOpts o;
        o.max_side = max_side;
        o.max_profile = max_side * 8;
        GridSpec g = gen_grid_spec(rng, o);
        if (family == Family::mesh)
            return;
        c07_case_structured(R, rng, g, false, 2);
    }

    // ------------------------------------------------------------------------------- C17
    std::vector<std::size_t> collect_forward(const fs::grid_nodes_indices<grid_t>& ni)
    {
        std::vector<std::size_t> v;
        for (auto it = ni.begin(); it != ni.end(); ++it)
            v.push_back(*it);
        return v;
    }
    std::vector<std::size_t> collect_reverse(const fs::grid_nodes_indices<grid_t>& ni)
    {
        std::vector<std::size_t> v;
        for (auto it = ni.rbegin(); it != ni.rend(); ++it)
            v.push_back(*it);
        return v;
    }

    void c17_check_grid(Runner& R, const GridSpec& g, const RefGeom& ref, grid_t& grid)
    {
        const std::size_t n = ref.n;
        auto fail = [&](const std::string& key, const std::string& detail)
        { R.violation("C17", key, JObj().raw("grid", g.json()).s("detail", detail).str()); };
        // status array
        const auto& st = grid.nodes_status();
        if (st.size() != n)
            fail("status_size", "nodes_status().size()=" + std::to_string(st.size()));
        else
        {
            for (std::size_t i = 0; i < n; ++i)
            {
                NS s = st.flat(i);
                if (s != ref.status[i] || grid.nodes_status(i) != ref.status[i])
                {
                    fail("status_value", "node " + std::to_string(i) + " is " + ns_name(s) + " expected " + ns_name(ref.status[i]));
                    break;
                }
            }
        }
        R.count("c17.status_arrays_compared");
        // iteration
        {
            std::vector<std::size_t> all(n);
            std::iota(all.begin(), all.end(), std::size_t(0));
            auto ni = grid.nodes_indices();
            auto f = collect_forward(ni);
            if (f != all)
                fail("iter_all_forward", "nodes_indices() forward=" + jarr_int(f, 40));
            auto r = collect_reverse(ni);
            std::reverse(all.begin(), all.end());
            if (r != all)
                fail("iter_all_reverse", "nodes_indices() reversed=" + jarr_int(r, 40));
            // range-for (what the library itself uses)
            std::vector<std::size_t> rf;
            for (auto i : grid.nodes_indices())
                rf.push_back(i);
            std::reverse(all.begin(), all.end());
            if (rf != all)
                fail("iter_all_rangefor", "range-for differs");
        }
        for (NS s : all_status)
        {
            std::vector<std::size_t> want;
            for (std::size_t i = 0; i < n; ++i)
                if (ref.status[i] == s)
                    want.push_back(i);
            auto ni = grid.nodes_indices(s);
            auto f = collect_forward(ni);
            if (f != want)
                fail(std::string("iter_filtered_forward"), std::string(ns_name(s)) + ": got " + jarr_int(f, 40) + " want " + jarr_int(want, 40));
            auto r = collect_reverse(ni);
            std::reverse(want.begin(), want.end());
            if (r != want)
                fail(std::string("iter_filtered_reverse"), std::string(ns_name(s)) + ": got " + jarr_int(r, 40) + " want " + jarr_int(want, 40));
            R.count("c17.filtered_iterations", 2);
            if (want.empty())
                R.count("c17.empty_filter_results");
            // iterators are self-contained values: they stay usable after the (temporary) container that made them is gone
            {
                std::reverse(want.begin(), want.end());
                auto it = grid.nodes_indices(s).begin();
                auto last = grid.nodes_indices(s).end();
                std::vector<std::size_t> f2;
                for (std::size_t guard = 0; it != last && guard <= n; ++it, ++guard)
                    f2.push_back(*it);
                if (f2 != want)
                    fail("iter_filtered_forward_from_temporaries", std::string(ns_name(s)) + ": got " + jarr_int(f2, 40) + " want " + jarr_int(want, 40));
                auto rit = grid.nodes_indices(s).rbegin();
                auto rlast = grid.nodes_indices(s).rend();
                std::vector<std::size_t> r2;
                for (std::size_t guard = 0; rit != rlast && guard <= n; ++rit, ++guard)
                    r2.push_back(*rit);
                std::reverse(r2.begin(), r2.end());
                if (r2 != want)
                    fail("iter_filtered_reverse_from_temporaries", std::string(ns_name(s)) + ": got (reversed back) " + jarr_int(r2, 40) + " want " + jarr_int(want, 40));
                R.count("c17.iterations_from_temporary_containers", 2);
            }
        }
        // default base levels of a new flow graph
        {
            fs::flow_graph<grid_t> graph(grid, { fs::single_flow_router() });
            auto bl = graph.base_levels();
            std::sort(bl.begin(), bl.end());
            std::vector<std::size_t> want;
            for (std::size_t i = 0; i < n; ++i)
                if (ref.status[i] == NS::fixed_value)
                    want.push_back(i);
            if (bl != want)
                fail("default_base_levels", "base_levels()=" + jarr_int(bl, 40) + " want " + jarr_int(want, 40));
            R.count("c17.base_level_sets_compared");
        }
    }

    // override-map variants: 0 empty, 1 single, 2 random, 3 corners, 4 on border, 5 out of range,
    // 6 contains looped, 7 override of border node with each status
    constexpr int c17_n_variants = 8;

    void c17_apply_variant(Rng& rng, GridSpec& g, int variant)
    {
        const std::size_t nr = g.rows, nc = g.cols;
        auto rnd_status3 = [&]() { return all_status[rng.below(3)]; };
        switch (variant)
        {
            case 0:
                break;
            case 1:
                g.overrides.push_back({ { { rng.below(nr), rng.below(nc) } }, rnd_status3() });
                break;
            case 2:
            {
                long k = rng.range(2, 6);
                for (long j = 0; j < k; ++j)
                    g.overrides.push_back({ { { rng.below(nr), rng.below(nc) } }, rnd_status3() });
                break;
            }
            case 3:
                g.overrides.push_back({ { { 0, 0 } }, rnd_status3() });
                g.overrides.push_back({ { { nr - 1, nc - 1 } }, rnd_status3() });
                if (rng.chance(0.5))
                    g.overrides.push_back({ { { 0, nc - 1 } }, rnd_status3() });
                break;
            case 4:
                g.overrides.push_back({ { { rng.below(nr), rng.chance(0.5) ? 0 : nc - 1 } }, rnd_status3() });
                if (family == Family::raster)
                    g.overrides.push_back({ { { rng.chance(0.5) ? 0 : nr - 1, rng.below(nc) } }, rnd_status3() });
                break;
            case 5:
                if (family == Family::raster && rng.chance(0.5))
                    g.overrides.push_back({ { { nr + rng.below(3), rng.below(nc) } }, rnd_status3() });
                else
                    g.overrides.push_back({ { { family == Family::raster ? rng.below(nr) : 0, nc + rng.below(3) } }, rnd_status3() });
                if (rng.chance(0.5))
                    g.overrides.push_back({ { { 0, 0 } }, rnd_status3() });
                break;
            case 6:
                g.overrides.push_back({ { { rng.below(nr), rng.below(nc) } }, NS::looped });
                if (rng.chance(0.5))
                    g.overrides.push_back({ { { rng.below(nr), rng.below(nc) } }, rnd_status3() });
                break;
            case 7:
                g.overrides.push_back({ { { nr / 2, 0 } }, rnd_status3() });
                g.overrides.push_back({ { { nr - 1, nc / 2 } }, rnd_status3() });
                break;
        }
    }

    EnumSpace c17_space()
    {
        EnumSpace E;
        if (family == Family::profile)
        {
            for (std::size_t s = 2; s <= 8; ++s)
                E.shapes.push_back({ { 1, s } });
            E.spacings = { { { 1, 1 } } };
            E.n_border = 16;
        }
        else
        {
            for (std::size_t r = 2; r <= 5; ++r)
                for (std::size_t c = 2; c <= 5; ++c)
                    E.shapes.push_back({ { r, c } });
            E.spacings = { { { 1, 1 } } };
            E.n_border = 256;
        }
        return E;
    }

    void c17_case_structured(Runner& R, Rng& rng, GridSpec g, int variant)
    {
        c17_apply_variant(rng, g, variant);
        RefGeom ref = ref_geom(g);
        Hasher h;
        g.hash_into(h);
        R.set_case_hash(h.h);
        std::string what;
        auto grid = try_make(g, what);
        R.count("c17.variant." + std::to_string(variant));
        if (!ref.valid)
        {
            R.count("c17.inadmissible:" + ref.invalid_reason);
            R.nontrivial(true);
            if (grid)
                R.violation("C17", "accepted_invalid", JObj().raw("grid", g.json()).s("reason", ref.invalid_reason).str());
            else
                R.count("c17.rejections_observed");
            return;
        }
        if (!grid)
        {
            R.violation("C17", "rejected_valid", JObj().raw("grid", g.json()).s("what", what).str());
            return;
        }
        R.nontrivial(true);
        R.count("c17.grids");
        if (R.want_sample())
            R.sample(JObj().raw("grid", g.json()).i("override_variant", variant).str());
        c17_check_grid(R, g, ref, *grid);
    }

    // ------------------------------------------------------------------------------- C18 (+ C17 for meshes)
    struct MeshGen
    {
        const char* name;
    };

    // minimal interior angle (degrees) over all triangles
    double min_angle_deg(const GridSpec& g)
    {
        double best = 180.0;
        for (auto& t : g.tris)
            for (int k = 0; k < 3; ++k)
            {
                auto& p = g.pts[t[static_cast<std::size_t>(k)]];
                auto& a = g.pts[t[static_cast<std::size_t>((k + 1) % 3)]];
                auto& b = g.pts[t[static_cast<std::size_t>((k + 2) % 3)]];
                double ux = a[0] - p[0], uy = a[1] - p[1], vx = b[0] - p[0], vy = b[1] - p[1];
                double ang = std::atan2(std::fabs(ux * vy - uy * vx), ux * vx + uy * vy) * 57.29577951308232;
                best = std::min(best, ang);
            }
        return best;
    }

    GridSpec gen_mesh_c18_unscaled(Rng& rng, std::string& cls, std::size_t max_side);

    // coordinates in any unit: the same shapes scaled by 1e-6 .. 1e6 (metres vs kilometres vs degrees)
    GridSpec gen_mesh_c18(Rng& rng, std::string& cls, std::size_t max_side)
    {
        GridSpec g = gen_mesh_c18_unscaled(rng, cls, max_side);
        if (rng.chance(0.4))
        {
            double sc = rng.logu(1e-6, 1e6);
            for (auto& p : g.pts)
            {
                p[0] *= sc;
                p[1] *= sc;
            }
            cls += sc < 1e-3 ? "/tiny_scale" : (sc > 1e3 ? "/huge_scale" : "/scaled");
        }
        if (rng.chance(0.3))
        {
            // projected coordinates: the mesh lies far from the origin compared with its extent (UTM-like eastings / northings)
            double ext = 0;
            for (auto& p : g.pts)
                ext = std::max({ ext, std::fabs(p[0]), std::fabs(p[1]) });
            const double ox = (rng.chance(0.5) ? 1 : -1) * ext * rng.logu(1e1, 1e6), oy = (rng.chance(0.5) ? 1 : -1) * ext * rng.logu(1e1, 1e6);
            for (auto& p : g.pts)
            {
                p[0] += ox;
                p[1] += oy;
            }
            cls += "/far_from_origin";
        }
        return g;
    }

    GridSpec gen_mesh_c18_unscaled(Rng& rng, std::string& cls, std::size_t max_side)
    {
        for (int tries = 0; tries < 100; ++tries)
        {
            GridSpec g;
            double u = rng.u01();
            long mx = static_cast<long>(max_side);
            if (u < 0.2)
            {
                cls = "regular";
                gen_lattice_mesh(rng, g, static_cast<std::size_t>(rng.range(2, mx)), static_cast<std::size_t>(rng.range(2, mx)),
                                 rng.logu(0.1, 10), rng.logu(0.1, 10), 0, 0, 0);
            }
            else if (u < 0.4)
            {
                cls = "jittered";
                double s = rng.logu(0.1, 10);
                gen_lattice_mesh(rng, g, static_cast<std::size_t>(rng.range(2, mx)), static_cast<std::size_t>(rng.range(2, mx)), s, s,
                                 rng.uniform(0.02, 0.15), 0, 0);
            }
            else if (u < 0.55)
            {
                cls = "stretched_obtuse";
                double s = rng.logu(0.1, 10);
                gen_lattice_mesh(rng, g, static_cast<std::size_t>(rng.range(2, mx)), static_cast<std::size_t>(rng.range(2, mx)), s,
                                 s * rng.logu(3, 25), rng.chance(0.5) ? 0.0 : 0.1, 0, 0);
            }
            else if (u < 0.7)
            {
                cls = "holes";
                double s = rng.logu(0.1, 10);
                gen_lattice_mesh(rng, g, static_cast<std::size_t>(rng.range(3, mx)), static_cast<std::size_t>(rng.range(3, mx)), s, s,
                                 rng.chance(0.5) ? 0.0 : 0.1, rng.uniform(0.05, 0.35), 0);
            }
            else if (u < 0.8)
            {
                cls = "isolated_points";
                double s = rng.logu(0.1, 10);
                gen_lattice_mesh(rng, g, static_cast<std::size_t>(rng.range(2, mx)), static_cast<std::size_t>(rng.range(2, mx)), s, s, 0,
                                 rng.chance(0.3) ? 0.1 : 0.0, static_cast<std::size_t>(rng.range(1, 3)));
            }
            else if (u < 0.92)
            {
                cls = "fan";
                std::size_t deg = static_cast<std::size_t>(rng.range(3, 20));
                gen_fan_mesh(rng, g, deg, rng.chance(0.5), rng.logu(0.3, 30));
            }
            else
            {
                cls = "strip";
                gen_lattice_mesh(rng, g, 2, static_cast<std::size_t>(rng.range(2, mx * 3)), rng.logu(0.1, 10), rng.logu(0.1, 10),
                                 rng.chance(0.5) ? 0.0 : 0.1, 0, 0);
            }
            if (g.tris.empty())
                continue;
            if (min_angle_deg(g) < 1.0)
                continue;
            return g;
        }
        cls = "fallback";
        GridSpec g;
        gen_lattice_mesh(rng, g, 3, 3, 1, 1, 0, 0, 0);
        return g;
    }

    // arrays of the wrong second dimension (points [N, 3], triangles [K, 2] / [K, 4]) are refused; had one been accepted, the
    // neighbour queries would run on whatever was built from it (the sanitizers decide)
    template <class G>
    void probe_wrong_mesh_arrays(Runner& R, Rng& rng, const GridSpec& g)
    {
        if constexpr (family == Family::mesh)
        {
            const bool bad_points = rng.chance(0.5);
            const std::size_t pc = bad_points ? 3 : 2, tc = bad_points ? 3 : (rng.chance(0.5) ? 2 : 4);
            typename G::points_type points = xt::zeros<double>(std::array<std::size_t, 2>{ { g.pts.size(), pc } });
            typename G::triangles_type tris = xt::zeros<std::size_t>(std::array<std::size_t, 2>{ { g.tris.size(), tc } });
            for (std::size_t i = 0; i < g.pts.size(); ++i)
                for (std::size_t j = 0; j < pc; ++j)
                    points(i, j) = g.pts[i][j % 2];
            for (std::size_t t = 0; t < g.tris.size(); ++t)
                for (std::size_t j = 0; j < tc; ++j)
                    tris(t, j) = g.tris[t][j % 3];
            try
            {
                G bad(points, tris, typename G::nodes_status_map_type{});
                R.count("c18.wrong_array_shape_accepted");
                for (std::size_t i = 0; i < bad.size(); ++i)
                    (void) bad.neighbors(i);
            }
            catch (const std::invalid_argument&)
            {
                R.count("c18.wrong_array_shape_refused");
            }
        }
    }

    void c18_case(Runner& R, Rng& rng, std::size_t max_side)
    {
        std::string cls;
        GridSpec g = gen_mesh_c18(rng, cls, max_side);
        // statuses: mostly default (that is what C18 states), sometimes explicit (C17 mesh rules)
        int mode = 0;
        double u = rng.u01();
        const std::size_t n = g.pts.size();
        if (u < 0.15)
        {
            mode = 1;
            g.mesh_status_mode = 1;
            long k = rng.range(0, 4);
            for (long j = 0; j < k; ++j)
                g.mesh_status_map.push_back({ rng.below(n), all_status[rng.below(3)] });
            if (rng.chance(0.15))
                g.mesh_status_map.push_back({ rng.below(n), NS::looped });
            if (rng.chance(0.1))
                g.mesh_status_map.push_back({ n + rng.below(3), NS::fixed_value });
        }
        else if (u < 0.3)
        {
            mode = 2;
            g.mesh_status_mode = 2;
            g.mesh_status_array.assign(n, NS::core);
            for (std::size_t i = 0; i < n; ++i)
                if (rng.chance(0.2))
                    g.mesh_status_array[i] = all_status[1 + rng.below(2)];
            if (rng.chance(0.1))
                g.mesh_status_array.push_back(NS::core);  // wrong shape: must be rejected
        }
        RefGeom ref = ref_geom(g);
        Hasher h;
        g.hash_into(h);
        R.set_case_hash(h.h);
        R.count("c18.class." + cls);
        R.count("c18.status_mode." + std::to_string(mode));
        std::string what;
        auto grid = try_make(g, what);
        if (!ref.valid)
        {
            R.count("c17.inadmissible:" + ref.invalid_reason);
            if (grid && R.want("C17"))
                R.violation("C17", "accepted_invalid", JObj().raw("grid", g.json(24)).s("reason", ref.invalid_reason).str());
            return;
        }
        if (!grid)
        {
            R.violation(R.want("C18") ? "C18" : "C17", "rejected_valid", JObj().raw("grid", g.json(24)).s("what", what).str());
            return;
        }
        R.nontrivial(true);
        if (R.want_sample())
            R.sample(JObj().raw("grid", g.json(40)).s("class", cls).str());

        if (rng.chance(0.1))
            probe_wrong_mesh_arrays<grid_t>(R, rng, g);

        if (R.want("C17"))
            c17_check_grid(R, g, ref, *grid);

        if (!R.want("C18"))
            return;
        auto fail = [&](const std::string& key, const std::string& detail)
        { R.violation("C18", key, JObj().raw("grid", g.json(40)).s("class", cls).s("detail", detail).str()); };

        // connectivity
        std::size_t maxdeg = 0;
        grid_t::neighbors_type nbuf;
        for (std::size_t i = 0; i < n; ++i)
        {
            std::vector<NbRec> want;
            for (auto& e : ref.adj[i])
                want.push_back({ e.idx, e.dist });
            maxdeg = std::max(maxdeg, want.size());
            auto& nb = grid->neighbors(i, nbuf);
            std::vector<NbRec> got;
            std::set<std::size_t> uniq;
            for (auto& x : nb)
            {
                got.push_back({ x.idx, x.distance });
                uniq.insert(x.idx);
                if (x.idx < n && x.status != ref.status[x.idx])
                    fail("neighbor_status", "node " + std::to_string(i));
            }
            if (uniq.size() != got.size())
                fail("duplicate_neighbor", "node " + std::to_string(i) + ": " + nb_json(got));
            if (!same_multiset(got, want, 2))
                fail("neighbors", "node " + std::to_string(i) + ": got " + nb_json(got) + " want " + nb_json(want));
            if (grid->neighbors_count(i) != want.size())
                fail("neighbors_count", "node " + std::to_string(i));
            auto ii = grid->neighbors_indices(i);
            auto dd = grid->neighbors_distances(i);
            if (ii.size() != got.size() || dd.size() != got.size())
                fail("accessors_disagree", "node " + std::to_string(i));
            else
                for (std::size_t k = 0; k < got.size(); ++k)
                    if (ii(k) != got[k].idx || dd(k) != got[k].dist)
                    {
                        fail("accessors_disagree", "node " + std::to_string(i));
                        break;
                    }
            R.count("c18.nodes_checked");
        }
        R.maxc("c18.max_degree", static_cast<long>(maxdeg));
        // query histories: the neighbours of a node do not depend on what was looked up before - the same node again, with
        // look-ups on another live mesh object in between, in any order
        {
            std::string c2;
            GridSpec dg = gen_mesh_c18(rng, c2, max_side);
            std::string w2;
            std::unique_ptr<grid_t> decoy = ref_geom(dg).valid ? try_make(dg, w2) : nullptr;
            const std::size_t dn = dg.pts.size();
            auto sorted_idx = [](const auto& arr)
            {
                std::vector<std::size_t> v(arr.begin(), arr.end());
                std::sort(v.begin(), v.end());
                return v;
            };
            const std::size_t visits = std::min<std::size_t>(n, 80);
            for (std::size_t q = 0; q < visits; ++q)
            {
                const std::size_t i = rng.below(n);
                std::vector<std::size_t> want;
                for (auto& e : ref.adj[i])
                    want.push_back(e.idx);
                std::sort(want.begin(), want.end());
                auto a = sorted_idx(grid->neighbors_indices(i));
                if (decoy && rng.chance(0.7))
                    (void) decoy->neighbors_indices(rng.below(dn));
                auto b = sorted_idx(grid->neighbors_indices(i));
                if (decoy && rng.chance(0.5))
                    (void) decoy->neighbors(rng.below(dn), nbuf);
                std::vector<std::size_t> c;
                for (auto& x : grid->neighbors(i, nbuf))
                    c.push_back(x.idx);
                std::sort(c.begin(), c.end());
                if (a != want || b != want || c != want)
                {
                    fail("neighbors_depend_on_query_history", "node " + std::to_string(i) + ": first look-up " + jarr_int(a, 30) + ", again after look-ups on another mesh "
                                                                  + jarr_int(b, 30) + ", struct accessor " + jarr_int(c, 30) + ", expected " + jarr_int(want, 30));
                    break;
                }
            }
            R.count("c18.query_history_visits", static_cast<long>(visits));
            if (decoy)
                R.count("c18.query_histories_with_second_mesh");
        }
        // boundary / default status
        if (mode == 0 || (mode == 1 && g.mesh_status_map.empty()))
        {
            for (std::size_t i = 0; i < n; ++i)
                if (grid->nodes_status(i) != ref.status[i])
                {
                    fail("default_status", "node " + std::to_string(i) + " is " + ns_name(grid->nodes_status(i)) + " expected "
                                               + ns_name(ref.status[i]));
                    break;
                }
            R.count("c18.default_status_checked");
        }
        // areas: independent cotangent-formula circumcentric shares, long double
        std::vector<long double> want_area(n, 0.0L), cond(n, 0.0L);
        long double total_tri = 0.0L;
        for (auto& t : g.tris)
        {
            long double px[3], py[3];
            for (int k = 0; k < 3; ++k)
            {
                px[k] = g.pts[t[static_cast<std::size_t>(k)]][0];
                py[k] = g.pts[t[static_cast<std::size_t>(k)]][1];
            }
            long double cr = (px[1] - px[0]) * (py[2] - py[0]) - (py[1] - py[0]) * (px[2] - px[0]);
            long double area2 = std::fabs(cr);  // twice the area
            total_tri += area2 / 2;
            // cot of the angle at vertex k
            long double cot[3];
            for (int k = 0; k < 3; ++k)
            {
                int a = (k + 1) % 3, b = (k + 2) % 3;
                long double ux = px[a] - px[k], uy = py[a] - py[k], vx = px[b] - px[k], vy = py[b] - py[k];
                cot[k] = (ux * vx + uy * vy) / area2;
            }
            for (int i = 0; i < 3; ++i)
            {
                int j = (i + 1) % 3, k = (i + 2) % 3;
                long double lij = (px[i] - px[j]) * (px[i] - px[j]) + (py[i] - py[j]) * (py[i] - py[j]);
                long double lik = (px[i] - px[k]) * (px[i] - px[k]) + (py[i] - py[k]) * (py[i] - py[k]);
                // edge ij is opposite vertex k, edge ik opposite vertex j
                long double share = (lij * cot[k] + lik * cot[j]) / 8;
                want_area[t[static_cast<std::size_t>(i)]] += share;
                cond[t[static_cast<std::size_t>(i)]] += (std::fabs(lij * cot[k]) + std::fabs(lik * cot[j])) / 8;
            }
        }
        auto areas = grid->nodes_areas();
        long double sum = 0.0L, sumabs = 0.0L;
        for (std::size_t i = 0; i < n; ++i)
        {
            long double a = areas(i);
            sum += a;
            sumabs += cond[i];
            if (grid->nodes_areas(i) != areas(i))
                fail("area_accessors_disagree", "node " + std::to_string(i));
            if (ref.adj[i].empty())
                continue;  // isolated node: no triangle, no share
            long double tol = 1e-9L * cond[i] + 1e-300L;
            if (std::fabs(a - want_area[i]) > tol)
                fail("node_area", "node " + std::to_string(i) + " area " + jnum(static_cast<double>(a)) + " expected "
                                      + jnum(static_cast<double>(want_area[i])));
        }
        if (std::fabs(sum - total_tri) > 1e-10L * sumabs + 1e-300L)
            fail("area_sum", "sum nodes_areas=" + jnum(static_cast<double>(sum)) + " sum triangles=" + jnum(static_cast<double>(total_tri)));
        R.count("c18.area_sums_compared");
    }
}

int
main(int argc, char** argv)
{
    Args a = parse_args(argc, argv);
    Runner R(a, "h_grid", grid_name);
    const bool thorough = a.tier == "thorough";

    if (family == Family::mesh)
    {
        // C18 and the mesh part of C17 (C07 does not apply to meshes)
        std::size_t max_side = a.maxn ? static_cast<std::size_t>(a.maxn) : (thorough ? 24 : 9);
        return run_cases(R, "mesh", [&](Runner& R_, Rng& rng, long) { c18_case(R_, rng, max_side); });
    }

    if (a.prop == "C18")
    {
        R.finish();
        return 0;
    }

    // structured grids: exhaustive enumeration first, random (larger) grids afterwards
    const bool do07 = R.want("C07"), do17 = R.want("C17");
    EnumSpace E07 = c07_space(), E17 = c17_space();
    const std::size_t n07 = do07 ? E07.total() * 2 : 0;                    // x2: without / with overrides
    const std::size_t n17 = do17 ? E17.total() * c17_n_variants : 0;       // x override-map variants
    const std::size_t n_enum = n07 + n17;
    // C08 sweep: only every `enumdiv`-th enumerated tuple (the enumeration itself belongs to C07 / C17)
    const std::size_t enumdiv = static_cast<std::size_t>(std::max<long>(1, a.geti("enumdiv", 1)));
    auto local_count = [&](std::size_t total)
    {
        // number of t in [0,total) with t % nshards == shard
        std::size_t ns = static_cast<std::size_t>(a.nshards), s = static_cast<std::size_t>(a.shard);
        return total / ns + (s < total % ns ? 1 : 0);
    };
    const long n_enum_local = static_cast<long>(local_count(n_enum) / enumdiv);
    // column counts 7 .. 7 + wide_total - 1, split over the shards (C07 only)
    const long wide_total = do07 && family == Family::raster ? a.geti("wide", thorough ? 1100 : 300) : 0;
    const long n_wide = (wide_total + a.nshards - 1) / a.nshards;
    const long n_random = a.geti("random", thorough ? 400 : 40) + n_wide;
    Args a2 = a;
    a2.cases = n_enum_local + n_random;
    Runner R2(a2, "h_grid", grid_name);
    R2.maxc("enum_total_all_shards", static_cast<long>(n_enum));
    R2.maxc("enum_total_this_shard", n_enum_local);
    std::size_t max_side = a.maxn ? static_cast<std::size_t>(a.maxn) : (thorough ? 40 : 14);
    int rc = run_cases(R2,
                       "structured",
                       [&](Runner& R_, Rng& rng, long k)
                       {
                           if (k < n_enum_local)
                           {
                               std::size_t t = static_cast<std::size_t>(k) * enumdiv * static_cast<std::size_t>(a.nshards)
                                               + static_cast<std::size_t>(a.shard);
                               // bijection on [0, n_enum) so that every shard sees every border class
                               // (n_enum = 2^a 3^b 7^c 11^d.. never a multiple of 10007)
                               t = (t * 10007u) % n_enum;
                               R_.count("enumerated_cases");
                               if (t < n07)
                               {
                                   bool with_ov = t >= E07.total();
                                   GridSpec g = spec_from_enum(E07, t % E07.total());
                                   c07_case_structured(R_, rng, g, with_ov, 2);
                               }
                               else
                               {
                                   std::size_t u = t - n07;
                                   int variant = static_cast<int>(u / E17.total());
                                   GridSpec g = spec_from_enum(E17, u % E17.total());
                                   c17_case_structured(R_, rng, g, variant);
                               }
                           }
                           else
                           {
                               R_.count("random_cases");
                               const long widx = k - n_enum_local;  // 0.. : the first `n_wide` random cases sweep the column counts
                               if (do07 && family == Family::raster && widx < n_wide)
                                   c07_case_wide(R_, rng, static_cast<std::size_t>(7 + (widx * a.nshards + a.shard)));
                               else if (do07 && widx == n_wide && enumdiv == 1)
                                   c07_case_long_axis(R_, rng);
                               else if (do07 && (!do17 || rng.chance(0.5)))
                                   c07_case_random(R_, rng, max_side);
                               else if (do17)
                               {
                                   GridGenOpts o;
                                   o.max_side = max_side;
                                   o.max_profile = max_side * 4;
                                   o.allow_overrides = false;
                                   GridSpec g = gen_grid_spec(rng, o);
                                   c17_case_structured(R_, rng, g, static_cast<int>(rng.below(c17_n_variants)));
                               }
                           }
                       });
    return rc;
}
