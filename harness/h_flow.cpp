// h_flow: C01 C02 C03 C04 C05 C06 C15 C19 (oracles over the public graph tables after update_routes).
// One grid type per binary (-DVG_<KIND>). See /verif/DESIGN.md section 5.
#include <algorithm>
#include <numeric>
#include <map>
#include <set>

#include "common/flowcommon.hpp"

using namespace vf;

namespace
{
    struct Env
    {
        GridSpec g;
        RefGeom R;
        std::unique_ptr<grid_t> grid;
    };

    struct Ctx
    {
        Runner& R;
        const Env& env;
        const std::vector<OpSpec>& ops;
        const FlowInputs& in;
        const std::vector<double>& h;  // returned elevation
        const GState& S;
        int step;
        std::string cfg;  // coarse configuration: resolver + downstream router

        std::string witness(const std::string& detail) const
        {
            return JObj()
                .raw("grid", env.g.json(300))
                .raw("operators", ops_json(ops))
                .i("update_no", step)
                .raw("inputs", inputs_json(in, 300))
                .raw("returned_elevation_hex", jarr(
                                                   h, [](double x) { return jhex(x); }, 300))
                .s("detail", detail)
                .str();
        }
        void fail(const std::string& prop, const std::string& key, const std::string& detail) const
        {
            R.violation(prop, key, witness(detail));
        }
        bool masked(std::size_t i) const
        {
            return in.masked(i);
        }
        bool is_bl(std::size_t i) const
        {
            return std::binary_search(in.bl.begin(), in.bl.end(), i);
        }
    };

    // What a sequence means for the properties that speak of specific arrangements (C01: "priority-flood ahead of a
    // router, or the spanning-tree resolver after a single-direction router"; C02: the filled surface).  A small state
    // machine over the operators; arrangements the statements do not speak of make the corresponding clause not
    // applicable (never "violated"):
    //  - a router produces routes on the current elevation; they are resolved when that elevation is a filled one;
    //  - priority-flood fills whatever elevation it is given; routes computed before it are stale afterwards (they
    //    describe the elevation the earlier router saw, not the returned one);
    //  - the spanning-tree resolver is specified on routes that come straight from a single-direction router (snapshots
    //    in between do not matter); anywhere else (after another resolver, on stale routes) neither the routes nor the
    //    elevation it leaves are covered by a statement.
    struct SeqSem
    {
        bool c01 = false;        // final routes are fresh (describe the returned elevation) and resolved
        bool c02 = false;        // returned elevation is a filled surface of the input
        int fills = 0;           // number of fill passes applied (each may add one increment per node)
        std::string cfg = "none+none";  // fill in effect + router placed after it
    };

    SeqSem analyze(const std::vector<OpSpec>& ops)
    {
        enum class Elev { raw, filled, unknown };
        Elev elev = Elev::raw;
        bool have = false, fresh = false, from_single_router = false, resolved = false, c02_ok = true;
        std::string res = "none", down = "none";
        int fills = 0;
        for (auto& o : ops)
        {
            if (o.kind == OpKind::single || o.kind == OpKind::single_par || o.kind == OpKind::multi)
            {
                have = fresh = true;
                from_single_router = o.kind != OpKind::multi;
                resolved = elev == Elev::filled;
                down = elev == Elev::raw ? "none" : (o.kind == OpKind::multi ? "multi" : "single");
            }
            else if (o.kind == OpKind::pflood)
            {
                elev = Elev::filled;
                res = "pflood";
                down = "none";
                ++fills;
                fresh = false;
            }
            else if (o.kind == OpKind::mst)
            {
                if (have && fresh && from_single_router)
                {
                    elev = Elev::filled;
                    res = std::string("mst-") + (o.rm == fs::mst_route_method::basic ? "basic" : "carve");
                    down = "none";
                    ++fills;
                    resolved = true;
                    from_single_router = false;
                }
                else
                {
                    elev = Elev::unknown;
                    c02_ok = false;
                    fresh = false;
                    resolved = false;
                    res = "unspecified";
                    down = "none";
                }
            }
        }
        SeqSem r;
        r.c01 = have && fresh && resolved;
        r.c02 = c02_ok && fills > 0 && elev == Elev::filled;
        r.fills = fills;
        r.cfg = res + "+" + down;
        return r;
    }

    std::string coarse_cfg(const std::vector<OpSpec>& ops)
    {
        return analyze(ops).cfg;
    }

    bool final_single(const std::vector<OpSpec>& ops)
    {
        bool single = false;
        for (auto& o : ops)
        {
            if (o.kind == OpKind::single || o.kind == OpKind::single_par || o.kind == OpKind::mst)
                single = true;
            else if (o.kind == OpKind::multi)
                single = false;
        }
        return single;
    }

    int last_router(const std::vector<OpSpec>& ops)  // 0 none, 1 single, 2 multi (last graph-updating op that is a router)
    {
        int r = 0;
        for (auto& o : ops)
        {
            if (o.kind == OpKind::single || o.kind == OpKind::single_par)
                r = 1;
            else if (o.kind == OpKind::multi)
                r = 2;
            else if (o.kind == OpKind::mst)
                r = 3;  // re-routed by the resolver: not a pure router result
        }
        return r;
    }

    // true when some operator edits the elevation after the last router: the returned elevation is then not the
    // one that router saw (C04 / C05 compare the tables with the elevation the router saw)
    bool elevation_edited_after_last_router(const std::vector<OpSpec>& ops)
    {
        bool edited = false;
        for (auto& o : ops)
        {
            if (o.kind == OpKind::single || o.kind == OpKind::single_par || o.kind == OpKind::multi)
                edited = false;
            else if (o.kind == OpKind::pflood || o.kind == OpKind::mst)
                edited = true;
        }
        return edited;
    }

    bool has_resolver(const std::vector<OpSpec>& ops)
    {
        for (auto& o : ops)
            if (o.kind == OpKind::pflood || o.kind == OpKind::mst)
                return true;
        return false;
    }

    // ------------------------------------------------------------------------------------ C06
    void check_c06(const Ctx& c)
    {
        C06Stats st;
        auto v = c06_violations(c.S, st);
        for (auto& kv : v)
            c.fail("C06", kv.first, kv.second);
        c.R.count("c06.edges_checked", st.edges);
        c.R.maxc("c06.bfs_levels_max", st.levels);
        if (st.levels >= 3 && st.multi_donor)
            c.R.nontrivial(true);
        c.R.count("c06.states_checked");
    }

    // ------------------------------------------------------------------------------------ C01
    void check_c01(const Ctx& c)
    {
        const GState& S = c.S;
        const std::size_t n = S.n;
        const char* P = "C01";
        auto reach = drains_possible(c.env.R, c.in);
        bool a_ok = true;
        long pits = 0;
        for (std::size_t i = 0; i < n; ++i)
        {
            if (c.masked(i) || c.is_bl(i))
            {
                if (!S.self_only(i))
                {
                    c.fail(P, std::string(c.masked(i) ? "masked" : "base_level") + "_node_drains/" + c.cfg,
                           "node " + std::to_string(i) + " receivers_count=" + std::to_string(S.rec_count[i]) + " first receiver " + std::to_string(S.r(i, 0)));
                    return;
                }
                continue;
            }
            if (S.self_only(i))
            {
                if (reach[i])
                {
                    ++pits;
                    if (pits == 1)
                        c.fail(P, "pit/" + c.cfg, "node " + std::to_string(i) + " is its own receiver but is connected to a base level");
                }
                continue;
            }
            for (std::size_t k = 0; k < S.rec_count[i]; ++k)
            {
                std::size_t r = S.r(i, k);
                if (r == i)
                {
                    c.fail(P, "self_among_receivers/" + c.cfg, "node " + std::to_string(i));
                    a_ok = false;
                    break;
                }
                if (!(c.h[r] < c.h[i]))
                {
                    if (a_ok)
                        c.fail(P, "not_strictly_decreasing/" + c.cfg,
                               "edge " + std::to_string(i) + "->" + std::to_string(r) + " h=" + jhex(c.h[i]) + " -> " + jhex(c.h[r]));
                    a_ok = false;
                }
                if (c.masked(r))
                {
                    c.fail(P, "drains_into_masked/" + c.cfg, "edge " + std::to_string(i) + "->" + std::to_string(r));
                    a_ok = false;
                }
            }
            c.R.count("c01.edges_checked", static_cast<long>(S.rec_count[i]));
        }
        if (!a_ok)
        {
            // classify: is there a cycle? (colour DFS over all receivers)
            std::vector<char> col(n, 0);
            bool cycle = false;
            for (std::size_t s = 0; s < n && !cycle; ++s)
            {
                if (col[s])
                    continue;
                std::vector<std::pair<std::size_t, std::size_t>> st{ { s, 0 } };
                col[s] = 1;
                while (!st.empty() && !cycle)
                {
                    auto& [v, k] = st.back();
                    if (k < S.rec_count[v])
                    {
                        std::size_t r = S.r(v, k++);
                        if (r == v)
                            continue;
                        if (col[r] == 1)
                            cycle = true;
                        else if (col[r] == 0)
                        {
                            col[r] = 1;
                            st.push_back({ r, 0 });
                        }
                    }
                    else
                    {
                        col[v] = 2;
                        st.pop_back();
                    }
                }
            }
            if (cycle)
                c.fail(P, "cycle/" + c.cfg, "receiver graph contains a cycle");
        }
        else if (pits == 0)
        {
            // bounded walk: every reachable node ends at a base level within n steps (first receivers)
            // (on very large grids a sample of start nodes: strict decrease on every edge and the absence of pits, checked
            // above for all nodes, already imply termination)
            long walked = 0;
            const std::size_t stride = n > 20000 ? n / 64 : 1;
            for (std::size_t i = 0; i < n; i += stride)
            {
                if (!reach[i] || c.masked(i))
                    continue;
                std::size_t v = i, steps = 0;
                while (!S.self_only(v) && steps <= n)
                {
                    v = S.r(v, steps % S.rec_count[v]);  // vary the branch taken on multi-flow graphs
                    ++steps;
                }
                ++walked;
                if (steps > n || !c.is_bl(v))
                {
                    c.fail(P, "path_does_not_reach_base_level/" + c.cfg, "from node " + std::to_string(i) + " ended at " + std::to_string(v) + " after " + std::to_string(steps) + " steps");
                    break;
                }
            }
            c.R.count("c01.paths_followed", walked);
        }
        c.R.count("c01.states_checked");
    }

    // ------------------------------------------------------------------------------------ C02
    // minimax spill level: min over adj-paths to a base level of the max input elevation on the path
    std::vector<double> minimax_levels(const RefGeom& R, const FlowInputs& in, std::vector<char>& defined)
    {
        const std::size_t n = R.n;
        std::vector<double> L(n, 0.0);
        defined.assign(n, 0);
        using item = std::pair<double, std::size_t>;
        std::priority_queue<item, std::vector<item>, std::greater<item>> pq;
        for (auto b : in.bl)
            if (!in.masked(b))
                pq.push({ in.z[b], b });
        while (!pq.empty())
        {
            auto [lv, i] = pq.top();
            pq.pop();
            if (defined[i])
                continue;
            defined[i] = 1;
            L[i] = lv;
            for (auto& nb : R.adj[i])
                if (!defined[nb.idx] && !in.masked(nb.idx))
                    pq.push({ std::max(lv, in.z[nb.idx]), nb.idx });
        }
        return L;
    }

    void check_c02(const Ctx& c, int fills)
    {
        const std::size_t n = c.S.n;
        const char* P = "C02";
        std::vector<char> def;
        auto L = minimax_levels(c.env.R, c.in, def);
        bool filled_something = false;
        long skipped = 0, compared = 0;
        std::int64_t max_excess = 0;
        for (std::size_t i = 0; i < n; ++i)
        {
            double z = c.in.z[i], h = c.h[i];
            if (c.masked(i) || c.is_bl(i))
            {
                if (bits(h) != bits(z))
                {
                    c.fail(P, std::string(c.masked(i) ? "masked" : "base_level") + "_elevation_changed/" + c.cfg, "node " + std::to_string(i) + " z=" + jhex(z) + " h=" + jhex(h));
                    return;
                }
                continue;
            }
            if (h < z)
            {
                c.fail(P, "lowered/" + c.cfg, "node " + std::to_string(i) + " z=" + jhex(z) + " h=" + jhex(h));
                return;
            }
            if (!def[i])
            {
                ++skipped;  // component without base level: outside the quantifier
                continue;
            }
            ++compared;
            if (L[i] > z)
                filled_something = true;
            std::int64_t ex = ord_diff(h, L[i]);
            if (ex < 0)
            {
                c.fail(P, "below_spill_level/" + c.cfg, "node " + std::to_string(i) + " z=" + jhex(z) + " h=" + jhex(h) + " spill=" + jhex(L[i]));
                return;
            }
            if (ex > static_cast<std::int64_t>(n) * std::max(1, fills))  // one increment per node and fill pass
            {
                c.fail(P, "above_spill_level/" + c.cfg, "node " + std::to_string(i) + " z=" + jhex(z) + " h=" + jhex(h) + " spill=" + jhex(L[i]) + " excess_ulps=" + std::to_string(ex));
                return;
            }
            max_excess = std::max(max_excess, ex);
        }
        c.R.count("c02.nodes_compared", compared);
        c.R.count("c02.nodes_skipped_no_base_level_in_component", skipped);
        c.R.maxc("c02.excess_ulps_max", static_cast<long>(max_excess));
        if (filled_something)
        {
            c.R.nontrivial(true);
            c.R.count("c02.states_with_filling");
        }
        c.R.count("c02.states_checked");
    }

    // ------------------------------------------------------------------------------------ C03
    void check_c03(const Ctx& c, graph_t& graph, Rng& rng, const GState* state = nullptr)
    {
        const GState& S = state ? *state : c.S;
        if (state)
            c.R.count("c03.snapshot_graphs_checked");
        const std::size_t n = S.n;
        const char* P = "C03";
        // source fields
        int kind = static_cast<int>(rng.below(5));
        std::vector<double> src(n, 0.0);
        bool scalar = false;
        double sval = 0;
        const char* kname = "";
        switch (kind)
        {
            case 0:
                kname = "scalar";
                scalar = true;
                sval = rng.pick(std::vector<double>{ 1.0, 0.0, 2.5, -0.25, 1e-3, 1e6 });
                std::fill(src.begin(), src.end(), sval);
                break;
            case 1:
                kname = "uniform_array";
                sval = rng.uniform(0.1, 3.0);
                std::fill(src.begin(), src.end(), sval);
                break;
            case 2:
                kname = "random_positive";
                for (auto& v : src)
                    v = rng.logu(1e-3, 1e3);
                break;
            case 3:
                kname = "mixed_sign";
                for (auto& v : src)
                    v = rng.uniform(-2.0, 2.0);
                break;
            default:
                kname = "one_hot";
                src[rng.below(n)] = rng.chance(0.5) ? 1.0 : -3.0;
                break;
        }
        c.R.count(std::string("c03.source.") + kname);
        arr_t src_arr = to_arr(c.env.g, src);
        arr_t acc1 = graph.accumulate(src_arr);
        arr_t acc2 = arr_t::from_shape(grid_shape_vec(c.env.g));
        for (std::size_t i = 0; i < n; ++i)
            acc2.flat(i) = rng.chance(0.5) ? 1e300 : -7.0;  // dirty pre-filled output
        graph.accumulate(acc2, src_arr);
        auto a1 = flat_vec(acc1), a2 = flat_vec(acc2);
        auto same_bits = [&](const std::vector<double>& x, const std::vector<double>& y, const char* what)
        {
            if (x.size() != y.size())
            {
                c.fail(P, "overload_shape", what);
                return false;
            }
            for (std::size_t i = 0; i < x.size(); ++i)
                if (bits(x[i]) != bits(y[i]) && !(std::isnan(x[i]) && std::isnan(y[i])))
                {
                    c.fail(P, "overloads_differ", std::string(what) + " at node " + std::to_string(i) + ": " + jhex(x[i]) + " vs " + jhex(y[i]) + " source=" + kname);
                    return false;
                }
            return true;
        };
        if (a1.size() != n)
        {
            c.fail(P, "result_shape", "accumulate() size " + std::to_string(a1.size()));
            return;
        }
        if (!same_bits(a1, a2, "returning vs in-place (array source)"))
            return;
        if (rng.chance(0.3))
        {
            // the same source handed over as another kind of array expression (column-major container, strided view into a
            // larger array, element-wise expression): same values, so the same result
            xt::xarray<double, xt::layout_type::column_major> cm = src_arr;
            auto shp = grid_shape_vec(c.env.g);
            auto big_shape = shp;
            big_shape[0] *= 2;
            arr_t big = arr_t::from_shape(big_shape);
            big.fill(-123.0);
            xt::strided_view(big, { xt::range(0, static_cast<std::ptrdiff_t>(big_shape[0]), 2), xt::ellipsis() }) = src_arr;
            auto view = xt::strided_view(big, { xt::range(0, static_cast<std::ptrdiff_t>(big_shape[0]), 2), xt::ellipsis() });
            arr_t acc_cm = graph.accumulate(cm);
            arr_t acc_view = graph.accumulate(view);
            arr_t acc_expr = graph.accumulate(src_arr * 1.0);
            arr_t acc_view_inplace = arr_t::from_shape(shp);
            acc_view_inplace.fill(5.0);
            graph.accumulate(acc_view_inplace, view);
            c.R.count("c03.source_expression_kinds_compared");
            if (!same_bits(a1, flat_vec(acc_cm), "row-major vs column-major source container")
                || !same_bits(a1, flat_vec(acc_view), "array vs strided view source")
                || !same_bits(a1, flat_vec(acc_expr), "array vs element-wise expression source")
                || !same_bits(a1, flat_vec(acc_view_inplace), "array vs strided view source (in-place)"))
                return;
        }
        if (scalar || kind == 1)
        {
            arr_t acc3 = graph.accumulate(sval);
            arr_t acc4 = arr_t::from_shape(grid_shape_vec(c.env.g));
            acc4.fill(-1.0);
            graph.accumulate(acc4, sval);
            auto a3 = flat_vec(acc3), a4 = flat_vec(acc4);
            if (!same_bits(a3, a4, "scalar returning vs scalar in-place") || !same_bits(a1, a3, "array vs scalar source"))
                return;
            c.R.count("c03.scalar_overloads_compared");
        }
        // the unit scalar source (drainage area) through the returning scalar overload, on every state checked
        std::vector<double> unit = flat_vec(graph.accumulate(1.0));
        // independent recomputation from the public tables (Kahn order, long double)
        std::vector<std::size_t> indeg(n, 0);
        for (std::size_t i = 0; i < n; ++i)
            for (std::size_t k = 0; k < S.rec_count[i]; ++k)
                if (S.r(i, k) != i)
                    indeg[S.r(i, k)]++;
        std::vector<std::size_t> stack;
        for (std::size_t i = 0; i < n; ++i)
            if (indeg[i] == 0)
                stack.push_back(i);
        std::vector<long double> want(n, 0.0L), absw(n, 0.0L);
        auto areas = c.env.grid->nodes_areas();
        std::size_t done = 0;
        long double total = 0.0L, total_abs = 0.0L;
        for (std::size_t i = 0; i < n; ++i)
        {
            long double loc = static_cast<long double>(c.env.grid->nodes_areas(i)) * static_cast<long double>(src[i]);
            if (areas.flat(i) != c.env.grid->nodes_areas(i))
                c.fail(P, "areas_accessors_disagree", "node " + std::to_string(i));
            want[i] = loc;
            absw[i] = std::fabs(loc);
            total += loc;
            total_abs += std::fabs(loc);
        }
        // circumcentric node areas of meshes with obtuse triangles may be negative: the clause
        // "non-negative source => value >= local contribution" presupposes non-negative areas
        bool areas_nonneg = true;
        for (std::size_t i = 0; i < n; ++i)
            areas_nonneg = areas_nonneg && c.env.grid->nodes_areas(i) >= 0;
        if (!areas_nonneg)
            c.R.count("c03.states_with_negative_node_areas");
        // the library adds contributions in double along the flow paths: one rounding per step, so the distance between its
        // result and the long double recomputation grows with the path length (number of breadth-first levels)
        const long double depth = static_cast<long double>(S.levels.size() > 1 ? S.levels.size() - 1 : n);
        const long double rel = std::max(1e-12L, 4.0L * std::numeric_limits<double>::epsilon() * (depth + 2.0L));
        bool weights_ok = true;
        while (!stack.empty())
        {
            std::size_t i = stack.back();
            stack.pop_back();
            ++done;
            long double wsum = 0.0L;
            bool has_out = false;
            for (std::size_t k = 0; k < S.rec_count[i]; ++k)
            {
                std::size_t r = S.r(i, k);
                if (r == i)
                    continue;
                has_out = true;
                long double w = S.rw(i, k);
                wsum += w;
                want[r] += want[i] * w;
                absw[r] += absw[i] * std::fabs(w);
                if (--indeg[r] == 0)
                    stack.push_back(r);
            }
            if (has_out && !std::isfinite(static_cast<double>(wsum)))
                weights_ok = false;  // non-finite weights are a C05 finding; the recurrence is still checked
        }
        if (done != n)
        {
            c.R.count("c03.skipped_cyclic_graph");
            return;
        }
        {
            // unit source: same recurrence with src = 1 (reuses the Kahn order implicitly: recompute)
            std::vector<long double> wu(n, 0.0L), au(n, 0.0L);
            std::vector<std::size_t> ind(n, 0), st2;
            for (std::size_t i = 0; i < n; ++i)
                for (std::size_t k = 0; k < S.rec_count[i]; ++k)
                    if (S.r(i, k) != i)
                        ind[S.r(i, k)]++;
            for (std::size_t i = 0; i < n; ++i)
            {
                wu[i] = c.env.grid->nodes_areas(i);
                au[i] = std::fabs(wu[i]);
                if (ind[i] == 0)
                    st2.push_back(i);
            }
            while (!st2.empty())
            {
                std::size_t i = st2.back();
                st2.pop_back();
                for (std::size_t k = 0; k < S.rec_count[i]; ++k)
                {
                    std::size_t r = S.r(i, k);
                    if (r == i)
                        continue;
                    wu[r] += wu[i] * static_cast<long double>(S.rw(i, k));
                    au[r] += au[i] * std::fabs(static_cast<long double>(S.rw(i, k)));
                    if (--ind[r] == 0)
                        st2.push_back(r);
                }
            }
            for (std::size_t i = 0; i < n; ++i)
                if (!(std::fabs(static_cast<long double>(unit[i]) - wu[i]) <= rel * au[i] + 1e-300L))
                {
                    c.fail(P, "not_upstream_integral", std::string(state ? "graph snapshot, " : "") + "unit scalar source: node " + std::to_string(i) + " accumulate(1.0)=" + jnum(unit[i]) + " recomputed=" + jnum(static_cast<double>(wu[i])));
                    break;
                }
            c.R.count("c03.unit_source_checks");
        }
        bool local_ok = true;
        for (std::size_t i = 0; i < n; ++i)
        {
            long double tol = rel * absw[i] + 1e-300L;
            if (!(std::fabs(static_cast<long double>(a1[i]) - want[i]) <= tol))
            {
                c.fail(P, "not_upstream_integral", "node " + std::to_string(i) + " accumulate=" + jnum(a1[i]) + " recomputed=" + jnum(static_cast<double>(want[i])) + " source=" + kname);
                local_ok = false;
                break;
            }
            if (kind != 3 && kind != 4 && sval >= 0 && areas_nonneg)
            {
                double loc = c.env.grid->nodes_areas(i) * src[i];
                if (a1[i] < loc)
                {
                    c.fail(P, "below_local_contribution", "node " + std::to_string(i) + " accumulate=" + jhex(a1[i]) + " local=" + jhex(loc));
                    local_ok = false;
                    break;
                }
            }
        }
        c.R.count("c03.nodes_compared", static_cast<long>(n));
        if (local_ok && weights_ok)
        {
            // the recurrence itself, node by node, with the library's own values at the donors: independent of the path
            // length, so the tolerance is a few roundings of the terms actually added at that node
            std::vector<long double> lw(n), la(n);
            std::vector<std::size_t> terms(n, 1);
            for (std::size_t i = 0; i < n; ++i)
            {
                lw[i] = static_cast<long double>(c.env.grid->nodes_areas(i)) * static_cast<long double>(src[i]);
                la[i] = std::fabs(lw[i]);
            }
            for (std::size_t d = 0; d < n; ++d)
                for (std::size_t k = 0; k < S.rec_count[d]; ++k)
                {
                    std::size_t r = S.r(d, k);
                    if (r == d)
                        continue;
                    long double t = static_cast<long double>(a1[d]) * static_cast<long double>(S.rw(d, k));
                    lw[r] += t;
                    la[r] += std::fabs(t);
                    ++terms[r];
                }
            for (std::size_t i = 0; i < n; ++i)
            {
                long double tol = (2.0L * static_cast<long double>(terms[i]) + 4.0L) * std::numeric_limits<double>::epsilon() * la[i] + 1e-300L;
                if (!(std::fabs(static_cast<long double>(a1[i]) - lw[i]) <= tol))
                {
                    c.fail(P, "recurrence_violated", "node " + std::to_string(i) + " accumulate=" + jhex(a1[i]) + " local contribution + weighted donors=" + jnum(static_cast<double>(lw[i])) + " (" + std::to_string(terms[i]) + " terms) source=" + kname);
                    local_ok = false;
                    break;
                }
            }
            c.R.count("c03.recurrence_nodes_checked", static_cast<long>(n));
        }
        if (local_ok)
        {
            if (weights_ok)
            {
                long double term = 0.0L;
                for (std::size_t i = 0; i < n; ++i)
                    if (S.self_only(i))
                        term += a1[i];
                if (!(std::fabs(term - total) <= 10.0L * rel * total_abs + 1e-300L))
                    c.fail(P, "not_conservative", "sum over terminal nodes=" + jnum(static_cast<double>(term)) + " integrated source=" + jnum(static_cast<double>(total)) + " source=" + kname);
                c.R.count("c03.conservation_checked");
            }
            else
                c.R.count("c03.conservation_skipped_non_finite_weights");
        }
        bool nt = false;
        for (std::size_t i = 0; i < n && !nt; ++i)
            nt = S.rec_count[i] >= 2;
        std::vector<std::size_t> dc(n, 0);
        for (std::size_t i = 0; i < n && !nt; ++i)
            for (std::size_t k = 0; k < S.rec_count[i]; ++k)
                if (S.r(i, k) != i && ++dc[S.r(i, k)] >= 2)
                    nt = true;
        c.R.nontrivial(nt);
    }

    // ------------------------------------------------------------------------------------ C04
    bool near_ulp(double a, double b, int ulps)
    {
        if (a == b)
            return true;
        std::int64_t d = ord_diff(a, b);
        return (d < 0 ? -d : d) <= ulps;
    }

    void check_c04(const Ctx& c)
    {
        const GState& S = c.S;
        const std::size_t n = S.n;
        const char* P = "C04";
        bool nontriv = false;
        for (std::size_t i = 0; i < n; ++i)
        {
            auto bad = [&](const std::string& key, const std::string& d) { c.fail(P, key, "node " + std::to_string(i) + ": " + d); };
            if (S.rec_count[i] != 1)
            {
                bad("receivers_count", "receivers_count=" + std::to_string(S.rec_count[i]));
                return;
            }
            if (S.rw(i, 0) != 1.0)
            {
                bad("weight_not_one", "weight=" + jnum(S.rw(i, 0)));
                return;
            }
            std::size_t r = S.r(i, 0);
            if (c.masked(i) || c.is_bl(i))
            {
                if (r != i)
                {
                    bad(c.masked(i) ? "masked_node_drains" : "base_level_drains", "receiver " + std::to_string(r));
                    return;
                }
                continue;
            }
            // strictly lower unmasked neighbours and their slopes (same double arithmetic)
            double smax = -1;
            int lower = 0;
            std::set<double> slopes;
            for (auto& nb : c.env.R.adj[i])
            {
                if (c.masked(nb.idx) || !(c.h[nb.idx] < c.h[i]))
                    continue;
                ++lower;
                double s = (c.h[i] - c.h[nb.idx]) / nb.dist;
                slopes.insert(s);
                smax = std::max(smax, s);
            }
            if (lower >= 2 && slopes.size() >= 2)
                nontriv = true;
            if (lower == 0)
            {
                if (r != i)
                {
                    bad("receiver_not_lower", "receiver " + std::to_string(r) + " but no unmasked neighbour is strictly lower");
                    return;
                }
                continue;
            }
            if (r == i)
            {
                bad("pit_with_lower_neighbour", std::to_string(lower) + " strictly lower unmasked neighbours, steepest slope " + jnum(smax));
                return;
            }
            // receiver must be an adjacent unmasked strictly lower node attaining the maximal slope
            bool adjacent = false, attains = false, dist_ok = false;
            for (auto& nb : c.env.R.adj[i])
            {
                if (nb.idx != r)
                    continue;
                adjacent = true;
                if (near_ulp(nb.dist, S.rd(i, 0), 2))
                {
                    dist_ok = true;
                    double s = (c.h[i] - c.h[r]) / nb.dist;
                    double s2 = (c.h[i] - c.h[r]) / S.rd(i, 0);
                    if (s == smax || s2 == smax || near_ulp(s, smax, 2))
                        attains = true;
                }
            }
            if (!adjacent)
            {
                bad("receiver_not_neighbour", "receiver " + std::to_string(r));
                return;
            }
            if (c.masked(r))
            {
                bad("receiver_masked", "receiver " + std::to_string(r));
                return;
            }
            if (!(c.h[r] < c.h[i]))
            {
                bad("receiver_not_lower", "receiver " + std::to_string(r) + " h=" + jhex(c.h[r]) + " node h=" + jhex(c.h[i]));
                return;
            }
            if (!dist_ok)
            {
                bad("receiver_distance", "stored distance " + jnum(S.rd(i, 0)));
                return;
            }
            if (!attains)
            {
                bad("not_steepest", "receiver " + std::to_string(r) + " slope " + jnum((c.h[i] - c.h[r]) / S.rd(i, 0)) + " steepest " + jnum(smax));
                return;
            }
        }
        c.R.count("c04.nodes_checked", static_cast<long>(n));
        c.R.nontrivial(nontriv);
        c.R.count("c04.states_checked");
    }

    // ------------------------------------------------------------------------------------ C05
    void check_c05(const Ctx& c, double p)
    {
        const GState& S = c.S;
        const std::size_t n = S.n;
        const char* P = "C05";
        bool nontriv = false;
        long illcond = 0, propchecked = 0;
        for (std::size_t i = 0; i < n; ++i)
        {
            auto bad = [&](const std::string& key, const std::string& d) { c.fail(P, key, "node " + std::to_string(i) + " (slope exponent " + jnum(p) + "): " + d); };
            struct E
            {
                std::size_t idx;
                double dist;
            };
            std::vector<E> want;
            if (!c.masked(i) && !c.is_bl(i))
                for (auto& nb : c.env.R.adj[i])
                    if (!c.masked(nb.idx) && c.h[nb.idx] < c.h[i])
                        want.push_back({ nb.idx, nb.dist });
            if (want.empty())
            {
                if (!S.self_only(i))
                {
                    bad(c.masked(i) ? "masked_node_drains" : (c.is_bl(i) ? "base_level_drains" : "receivers_without_lower_neighbour"),
                        "receivers_count=" + std::to_string(S.rec_count[i]) + " first=" + std::to_string(S.r(i, 0)));
                    return;
                }
                continue;
            }
            if (S.rec_count[i] != want.size())
            {
                bad("receiver_set", "receivers_count=" + std::to_string(S.rec_count[i]) + " but " + std::to_string(want.size()) + " strictly lower unmasked neighbours");
                return;
            }
            std::vector<E> got;
            for (std::size_t k = 0; k < S.rec_count[i]; ++k)
                got.push_back({ S.r(i, k), S.rd(i, k) });
            auto cmp = [](const E& a, const E& b) { return a.idx != b.idx ? a.idx < b.idx : a.dist < b.dist; };
            auto w2 = want, g2 = got;
            std::sort(w2.begin(), w2.end(), cmp);
            std::sort(g2.begin(), g2.end(), cmp);
            for (std::size_t k = 0; k < w2.size(); ++k)
                if (w2[k].idx != g2[k].idx || !near_ulp(w2[k].dist, g2[k].dist, 2))
                {
                    bad("receiver_set", "receivers do not match the strictly lower unmasked neighbours (with distances)");
                    return;
                }
            // weights
            long double wsum = 0;
            bool finite = true;
            for (std::size_t k = 0; k < S.rec_count[i]; ++k)
            {
                double w = S.rw(i, k);
                if (!std::isfinite(w) || w < 0 || w > 1)
                    finite = false;
                wsum += w;
            }
            if (!finite)
            {
                std::string ws;
                for (std::size_t k = 0; k < S.rec_count[i]; ++k)
                    ws += jnum(S.rw(i, k)) + " ";
                bad("weight_not_finite_or_out_of_range", "weights " + ws);
                return;
            }
            if (std::fabs(wsum - 1.0L) > 1e-12L * static_cast<long double>(S.rec_count[i]) + 1e-15L)
            {
                bad("weights_do_not_sum_to_one", "sum=" + jnum(static_cast<double>(wsum)));
                return;
            }
            // proportionality (long double has a much wider exponent range: the oracle cannot underflow)
            std::vector<long double> sp(got.size());
            std::vector<double> s(got.size());
            long double spsum = 0;
            bool all_normal = true;
            for (std::size_t k = 0; k < got.size(); ++k)
            {
                s[k] = (c.h[i] - c.h[got[k].idx]) / got[k].dist;
                long double sl = (static_cast<long double>(c.h[i]) - static_cast<long double>(c.h[got[k].idx])) / static_cast<long double>(got[k].dist);
                sp[k] = powl(sl, static_cast<long double>(p));
                spsum += sp[k];
                double spd = std::pow(s[k], p);
                if (!(std::fabs(s[k]) >= 2.3e-308) || !std::isfinite(spd) || !(spd >= 2.3e-308))
                    all_normal = false;
            }
            if (got.size() >= 2)
                nontriv = true;
            if (all_normal && std::isfinite(static_cast<double>(spsum)) && spsum > 0)
            {
                for (std::size_t k = 0; k < got.size(); ++k)
                {
                    long double lhs = static_cast<long double>(S.rw(i, k)) * spsum;
                    if (std::fabs(lhs - sp[k]) > 1e-10L * spsum)
                    {
                        bad("weight_not_proportional", "receiver " + std::to_string(got[k].idx) + " weight " + jnum(S.rw(i, k)) + " expected " + jnum(static_cast<double>(sp[k] / spsum)));
                        return;
                    }
                }
                ++propchecked;
            }
            else
            {
                ++illcond;
                // ill-conditioned regime: monotonicity only
                for (std::size_t a = 0; a < got.size(); ++a)
                    for (std::size_t b = 0; b < got.size(); ++b)
                        if (p > 0 && s[a] > s[b] && S.rw(i, a) < S.rw(i, b))
                        {
                            bad("weight_not_monotonic", "slopes " + jnum(s[a]) + " > " + jnum(s[b]) + " but weights " + jnum(S.rw(i, a)) + " < " + jnum(S.rw(i, b)));
                            return;
                        }
            }
        }
        c.R.count("c05.nodes_checked", static_cast<long>(n));
        c.R.count("c05.proportionality_checked_nodes", propchecked);
        c.R.count("c05.ill_conditioned_nodes", illcond);
        c.R.nontrivial(nontriv);
        c.R.count("c05.states_checked");
    }

    // ------------------------------------------------------------------------------------ C19
    void check_c19(const Ctx& c, graph_t& graph, int repeat, const GState* state = nullptr, const char* which = "")
    {
        const GState& S = state ? *state : c.S;
        const std::size_t n = S.n;
        const std::string Pk = std::string("C19");
        const char* P = "C19";
        (void) Pk;
        if (*which)
            c.R.count("c19.snapshot_graphs_checked");
        const std::size_t no_basin = std::numeric_limits<std::size_t>::max();
        for (int rep = 0; rep < repeat; ++rep)
        {
            sarr_t b = graph.basins();
            if (b.size() != n)
            {
                c.fail(P, "basins_shape", "size " + std::to_string(b.size()));
                return;
            }
            auto lab = flat_vec(b);
            // expected labels: outlets numbered in dfs order
            std::vector<std::size_t> outlet_label(n, no_basin);
            std::vector<std::size_t> outlets;
            for (auto i : S.dfs)
                if (i < n && !c.masked(i) && S.r(i, 0) == i)
                {
                    outlet_label[i] = outlets.size();
                    outlets.push_back(i);
                }
            for (std::size_t i = 0; i < n; ++i)
            {
                if (c.masked(i))
                {
                    if (lab[i] != no_basin)
                    {
                        c.fail(P, "masked_label", "masked node " + std::to_string(i) + " label " + std::to_string(lab[i]));
                        return;
                    }
                    continue;
                }
                std::size_t r = S.r(i, 0);
                if (r == i)
                {
                    if (lab[i] != outlet_label[i])
                    {
                        c.fail(P, "outlet_numbering", "outlet " + std::to_string(i) + " label " + std::to_string(lab[i]) + " expected " + std::to_string(outlet_label[i]));
                        return;
                    }
                }
                else if (r < n && lab[i] != lab[r])
                {
                    c.fail(P, "label_differs_from_receiver", "node " + std::to_string(i) + " label " + std::to_string(lab[i]) + " receiver " + std::to_string(r) + " label " + std::to_string(lab[r]));
                    return;
                }
            }
            std::set<std::size_t> distinct;
            for (std::size_t i = 0; i < n; ++i)
                if (lab[i] != no_basin)
                    distinct.insert(lab[i]);
            auto& lo = graph.impl().outlets();
            if (distinct.size() != outlets.size() || lo.size() != outlets.size())
            {
                c.fail(P, "label_count", "distinct labels " + std::to_string(distinct.size()) + " unmasked outlets " + std::to_string(outlets.size()) + " impl().outlets() " + std::to_string(lo.size()));
                return;
            }
            if (std::vector<std::size_t>(lo.begin(), lo.end()) != outlets)
            {
                c.fail(P, "outlets_list", "impl().outlets()=" + jarr_int(lo, 40) + " expected " + jarr_int(outlets, 40));
                return;
            }
            std::vector<std::size_t> want_pits;
            for (auto o : outlets)
                if (!c.is_bl(o))
                    want_pits.push_back(o);
            auto& pits = graph.impl_ptr()->pits();
            if (std::vector<std::size_t>(pits.begin(), pits.end()) != want_pits)
            {
                c.fail(P, "pits_list", "impl().pits()=" + jarr_int(pits, 40) + " expected " + jarr_int(want_pits, 40));
                return;
            }
            if (outlets.size() >= 2)
                c.R.nontrivial(true);
            c.R.maxc("c19.basins_max", static_cast<long>(outlets.size()));
        }
        c.R.count("c19.delineations_checked", repeat);
    }

    // ------------------------------------------------------------------------------------ C15
    struct UF
    {
        std::vector<std::size_t> p;
        explicit UF(std::size_t n)
            : p(n)
        {
            std::iota(p.begin(), p.end(), std::size_t(0));
        }
        std::size_t find(std::size_t x)
        {
            while (p[x] != x)
                x = p[x] = p[p[x]];
            return x;
        }
        bool unite(std::size_t a, std::size_t b)
        {
            a = find(a);
            b = find(b);
            if (a == b)
                return false;
            p[a] = b;
            return true;
        }
    };

    using bgraph_t = fs::basin_graph<impl_t>;

    // returns the sorted weight multiset of the library tree (empty on failure)
    std::vector<double> check_c15_one(const Ctx& c, graph_t& graph, bgraph_t& bg, const char* method, const std::vector<std::size_t>& lab)
    {
        const std::size_t n = c.S.n;
        const char* P = "C15";
        const std::size_t none = static_cast<std::size_t>(-1);
        const auto& outlets = graph.impl().outlets();
        const std::size_t nb = outlets.size();
        auto bad = [&](const std::string& key, const std::string& d) { c.fail(P, key + std::string("/") + method, d); };
        if (bg.basins_count() != nb)
        {
            bad("basins_count", std::to_string(bg.basins_count()));
            return {};
        }
        std::vector<char> inner(nb, 0);
        for (std::size_t b = 0; b < nb; ++b)
            inner[b] = !c.is_bl(outlets[b]);
        // expected edges between adjacent basins (at least one inner)
        std::map<std::pair<std::size_t, std::size_t>, double> want;
        for (std::size_t i = 0; i < n; ++i)
        {
            if (c.masked(i))
                continue;
            for (auto& e : c.env.R.adj[i])
            {
                if (c.masked(e.idx))
                    continue;
                std::size_t a = lab[i], b = lab[e.idx];
                if (a == b || (!inner[a] && !inner[b]))
                    continue;
                auto key = std::minmax(a, b);
                double w = std::max(c.in.z[i], c.in.z[e.idx]);
                auto it = want.find(key);
                if (it == want.end() || w < it->second)
                    want[key] = w;
            }
        }
        // library edges
        const auto& edges = bg.edges();
        std::map<std::pair<std::size_t, std::size_t>, std::size_t> got;
        std::vector<std::size_t> rootlinks;
        for (std::size_t k = 0; k < edges.size(); ++k)
        {
            const auto& e = edges[k];
            if (e.link[0] >= nb || e.link[1] >= nb || e.link[0] == e.link[1])
            {
                bad("edge_link_range", "edge " + std::to_string(k));
                return {};
            }
            bool rootlink = e.pass[0] == none || e.pass[1] == none;
            if (rootlink)
            {
                if (e.pass[0] != none || e.pass[1] != none || inner[e.link[0]] || inner[e.link[1]]
                    || e.pass_elevation != std::numeric_limits<double>::lowest())
                {
                    bad("root_link_malformed", "edge " + std::to_string(k) + " links " + std::to_string(e.link[0]) + "," + std::to_string(e.link[1]));
                    return {};
                }
                rootlinks.push_back(k);
                continue;
            }
            auto key = std::minmax(e.link[0], e.link[1]);
            if (got.count(key))
            {
                bad("duplicate_edge", "basins " + std::to_string(key.first) + "," + std::to_string(key.second));
                return {};
            }
            got[key] = k;
            // pass nodes: in the right basins, adjacent, achieving the pass elevation
            std::size_t p0 = e.pass[0], p1 = e.pass[1];
            if (p0 >= n || p1 >= n || lab[p0] != e.link[0] || lab[p1] != e.link[1])
            {
                bad("pass_nodes_not_in_linked_basins", "edge " + std::to_string(k) + " basins " + std::to_string(e.link[0]) + "," + std::to_string(e.link[1]) + " pass " + std::to_string(p0) + "," + std::to_string(p1));
                return {};
            }
            bool adjacent = false;
            for (auto& a : c.env.R.adj[p0])
                if (a.idx == p1 && near_ulp(a.dist, e.pass_length, 2))
                    adjacent = true;
            if (!adjacent)
            {
                bad("pass_nodes_not_adjacent", "edge " + std::to_string(k) + " pass " + std::to_string(p0) + "," + std::to_string(p1) + " length " + jnum(e.pass_length));
                return {};
            }
            if (std::max(c.in.z[p0], c.in.z[p1]) != e.pass_elevation)
            {
                bad("pass_elevation_not_max_of_pass_nodes", "edge " + std::to_string(k));
                return {};
            }
        }
        if (got.size() != want.size())
        {
            bad("edge_set", "library has " + std::to_string(got.size()) + " basin connections, expected " + std::to_string(want.size()));
            return {};
        }
        for (auto& kv : want)
        {
            auto it = got.find(kv.first);
            if (it == got.end())
            {
                bad("edge_set", "missing connection between basins " + std::to_string(kv.first.first) + " and " + std::to_string(kv.first.second));
                return {};
            }
            if (edges[it->second].pass_elevation != kv.second)
            {
                bad("pass_not_lowest", "basins " + std::to_string(kv.first.first) + "," + std::to_string(kv.first.second) + ": pass elevation " + jhex(edges[it->second].pass_elevation) + " lowest possible " + jhex(kv.second));
                return {};
            }
        }
        // root links: all outer basins but one, all sharing a common endpoint
        std::size_t n_outer = 0;
        for (std::size_t b = 0; b < nb; ++b)
            n_outer += inner[b] ? 0 : 1;
        if (n_outer == 0)
            return {};
        if (rootlinks.size() != n_outer - 1)
        {
            bad("root_links_count", std::to_string(rootlinks.size()) + " root links for " + std::to_string(n_outer) + " outer basins");
            return {};
        }
        // tree
        const auto& tree = bg.tree();
        std::set<std::size_t> tset(tree.begin(), tree.end());
        if (tset.size() != tree.size())
        {
            bad("tree_duplicate_edges", "");
            return {};
        }
        UF uf(nb);
        std::vector<std::vector<std::pair<std::size_t, std::size_t>>> tadj(nb);  // basin -> (other, edge id)
        for (auto k : tree)
        {
            if (k >= edges.size())
            {
                bad("tree_edge_index", std::to_string(k));
                return {};
            }
            if (!uf.unite(edges[k].link[0], edges[k].link[1]))
            {
                bad("tree_has_cycle", "edge " + std::to_string(k));
                return {};
            }
            tadj[edges[k].link[0]].push_back({ edges[k].link[1], k });
            tadj[edges[k].link[1]].push_back({ edges[k].link[0], k });
        }
        // root: common endpoint of the root links; with one root link the upstream-orientation says link[0];
        // with none, the only outer basin
        std::size_t root = none;
        if (rootlinks.empty())
        {
            for (std::size_t b = 0; b < nb; ++b)
                if (!inner[b])
                    root = b;
        }
        else if (rootlinks.size() == 1)
            root = edges[rootlinks[0]].link[0];
        else
        {
            auto& e0 = edges[rootlinks[0]];
            auto& e1 = edges[rootlinks[1]];
            root = (e0.link[0] == e1.link[0] || e0.link[0] == e1.link[1]) ? e0.link[0] : e0.link[1];
            for (auto k : rootlinks)
                if (edges[k].link[0] != root && edges[k].link[1] != root)
                {
                    bad("root_links_no_common_root", "");
                    return {};
                }
        }
        // basins reachable from the root in the full edge graph
        UF reach(nb);
        for (auto& e : edges)
            reach.unite(e.link[0], e.link[1]);
        std::size_t n_reach = 0;
        for (std::size_t b = 0; b < nb; ++b)
            if (reach.find(b) == reach.find(root))
                ++n_reach;
        // tree must span exactly the reachable basins
        std::size_t n_in_tree = 0;
        for (std::size_t b = 0; b < nb; ++b)
            if (uf.find(b) == uf.find(root))
                ++n_in_tree;
        if (n_in_tree != n_reach || tree.size() != n_reach - 1)
        {
            bad("tree_does_not_span_reachable_basins", "tree edges " + std::to_string(tree.size()) + ", basins connected to root through the tree " + std::to_string(n_in_tree) + ", reachable basins " + std::to_string(n_reach) + " of " + std::to_string(nb));
            return {};
        }
        // minimum weight: compare weight multisets with the harness's own Kruskal on the reachable component
        std::vector<std::size_t> order(edges.size());
        std::iota(order.begin(), order.end(), std::size_t(0));
        std::stable_sort(order.begin(), order.end(), [&](std::size_t a, std::size_t b) { return edges[a].pass_elevation < edges[b].pass_elevation; });
        UF uf2(nb);
        std::vector<double> mst_w, tree_w;
        for (auto k : order)
            if (reach.find(edges[k].link[0]) == reach.find(root) && uf2.unite(edges[k].link[0], edges[k].link[1]))
                mst_w.push_back(edges[k].pass_elevation);
        for (auto k : tree)
            tree_w.push_back(edges[k].pass_elevation);
        std::sort(mst_w.begin(), mst_w.end());
        std::sort(tree_w.begin(), tree_w.end());
        if (mst_w != tree_w)
        {
            bad("tree_not_minimum", "sorted tree weights " + jarr_num(tree_w, 40) + " minimum spanning tree weights " + jarr_num(mst_w, 40));
            return {};
        }
        // orientation: link[0] nearer the root
        std::vector<std::size_t> depth(nb, none);
        std::vector<std::size_t> q{ root };
        depth[root] = 0;
        for (std::size_t qi = 0; qi < q.size(); ++qi)
            for (auto& [o, k] : tadj[q[qi]])
                if (depth[o] == none)
                {
                    depth[o] = depth[q[qi]] + 1;
                    q.push_back(o);
                }
        for (auto k : tree)
        {
            auto& e = edges[k];
            if (depth[e.link[0]] == none || depth[e.link[1]] == none || depth[e.link[0]] + 1 != depth[e.link[1]])
            {
                bad("tree_edge_orientation", "edge " + std::to_string(k) + " links " + std::to_string(e.link[0]) + "(depth " + std::to_string(depth[e.link[0]]) + ") -> " + std::to_string(e.link[1]) + "(depth " + std::to_string(depth[e.link[1]]) + ")");
                return {};
            }
        }
        // statistics
        std::vector<std::size_t> deg(nb, 0);
        for (auto& e : edges)
        {
            deg[e.link[0]]++;
            deg[e.link[1]]++;
        }
        std::size_t maxdeg = 0;
        for (auto d : deg)
            maxdeg = std::max(maxdeg, d);
        c.R.maxc("c15.basin_degree_max", static_cast<long>(maxdeg));
        c.R.maxc("c15.basins_max", static_cast<long>(nb));
        if (maxdeg > 16)
            c.R.count("c15.graphs_with_degree_above_16");
        if (nb >= 3 && edges.size() >= n_reach && n_reach >= 3)
            c.R.nontrivial(true);
        if (n_reach < nb)
            c.R.count("c15.graphs_with_unreachable_basins");
        c.R.count("c15.trees_checked");
        c.R.count("c15.edges_checked", static_cast<long>(edges.size()));
        return tree_w;
    }

    // ------------------------------------------------------------------------------------ generators
    Env make_env(Rng& rng, std::size_t max_side)
    {
        Env e;
        GridGenOpts o;
        o.max_side = max_side;
        o.max_profile = std::min<std::size_t>(64, max_side * 6);
        e.g = gen_grid_spec(rng, o);
        e.R = ref_geom(e.g);
        e.grid = make_grid(e.g);
        return e;
    }

    // large grids whose flow paths are longer than 65535 nodes (index / counter widths, recursion depth, O(N) claims):
    // a long profile, or a raster carrying one serpentine valley between high walls. Not available for meshes and for
    // diagonal-only connectivity (no serpentine there): the caller falls back to an ordinary case
    bool large_available()
    {
        if (family == Family::profile)
            return true;
        if (family == Family::raster)
            return raster_connect_id != 2;
        return false;
    }

    Env make_env_large(Rng& rng)
    {
        Env e;
        GridSpec g;
        if (family == Family::profile)
        {
            g.rows = 1;
            g.cols = static_cast<std::size_t>(rng.range(66000, 80000));
            g.dx = rng.chance(0.5) ? 1.0 : rng.logu(0.1, 30.0);
            g.border = { { rng.chance(0.5) ? NS::fixed_value : NS::core, rng.chance(0.5) ? NS::fixed_value : NS::core, NS::core, NS::core } };
        }
        else
        {
            g.rows = static_cast<std::size_t>(rng.range(366, 384));
            g.cols = static_cast<std::size_t>(rng.range(366, 384));
            g.dy = rng.chance(0.5) ? 1.0 : rng.logu(0.1, 30.0);
            g.dx = rng.chance(0.5) ? g.dy : rng.logu(0.1, 30.0);
            NS b = rng.chance(0.5) ? NS::core : NS::fixed_gradient;
            g.border = { { b, b, b, b } };
        }
        e.g = g;
        e.R = ref_geom(e.g);
        e.grid = make_grid(e.g);
        return e;
    }

    // one valley of length ~ N (profile) or ~ N / 2 (raster: even rows are the valley floor, odd rows are walls pierced at
    // alternating ends); elevation increases along the valley from `outlet`
    FlowInputs gen_inputs_long_path(Rng& rng, const Env& e)
    {
        FlowInputs in;
        const GridSpec& g = e.g;
        const std::size_t n = e.R.n;
        in.z.assign(n, 0.0);
        const double step = rng.pick(std::vector<double>{ 1.0, 1e-3, 0.37 });
        const double jitter = rng.chance(0.5) ? 0.0 : 0.25 * step;
        std::size_t outlet = 0;
        if (family == Family::profile)
        {
            const bool rev = rng.chance(0.5);
            for (std::size_t i = 0; i < n; ++i)
            {
                std::size_t pos = rev ? n - 1 - i : i;
                in.z[i] = step * static_cast<double>(pos) + jitter * rng.u01();
            }
            outlet = rev ? n - 1 : 0;
        }
        else
        {
            const double wall = step * static_cast<double>(n) * 2.0 + 10.0;
            std::size_t pos = 0;
            for (std::size_t r = 0; r < g.rows; ++r)
            {
                const bool floor_row = r % 2 == 0;
                const bool left_to_right = (r / 2) % 2 == 0;
                if (floor_row)
                {
                    for (std::size_t k = 0; k < g.cols; ++k)
                    {
                        std::size_t c = left_to_right ? k : g.cols - 1 - k;
                        in.z[r * g.cols + c] = step * static_cast<double>(pos++) + jitter * rng.u01();
                    }
                }
                else
                {
                    for (std::size_t c = 0; c < g.cols; ++c)
                        in.z[r * g.cols + c] = wall + static_cast<double>(c % 7);
                    // the wall is pierced where the floor row above it ends
                    std::size_t c = left_to_right ? g.cols - 1 : 0;
                    in.z[r * g.cols + c] = step * static_cast<double>(pos++) + jitter * rng.u01();
                }
            }
            outlet = 0;
        }
        // a few shallow depressions along the valley (work for the resolvers, a handful of basins)
        const long npits = rng.range(0, 6);
        for (long k = 0; k < npits; ++k)
        {
            std::size_t i = rng.below(n);
            if (i != outlet && in.z[i] < step * static_cast<double>(n) * 1.5)
                in.z[i] -= 2.5 * step;
        }
        in.field_cls = "long_path";
        in.mask_cls = "none";
        in.bl_cls = "single_node";
        in.bl = { outlet };
        in.custom_bl = true;
        return in;
    }

    FlowInputs gen_inputs(Rng& rng, const Env& e, bool no_masked_bl, int force_cls = -1)
    {
        FlowInputs in;
        int cls = force_cls >= 0 ? force_cls : static_cast<int>(rng.below(n_field_classes));
        in.field_cls = field_class_name(cls);
        in.z = gen_field_spec(rng, e.g, e.R, cls);
        in.mask = gen_mask(rng, e.g, e.R, in.mask_cls);
        in.custom_bl = gen_base_levels(rng, e.R, in.bl, in.bl_cls);
        fix_domain(rng, e.R, in, no_masked_bl);
        return in;
    }

    fs::mst_method rnd_bm(Rng& rng)
    {
        return rng.chance(0.5) ? fs::mst_method::kruskal : fs::mst_method::boruvka;
    }
    fs::mst_route_method rnd_rm(Rng& rng)
    {
        return rng.chance(0.5) ? fs::mst_route_method::basic : fs::mst_route_method::carve;
    }
    double rnd_p(Rng& rng)
    {
        // every exponent >= 0 is in the domain; large ones make pow() of the slope ratios underflow
        return rng.pick(std::vector<double>{ 0.0, 0.5, 1.0, 1.1, 2.0, 5.0, 10.0, 10.0, 25.0, 60.0 });
    }
    OpSpec rnd_single(Rng& rng)
    {
        return rng.chance(0.25) ? op_single_par(static_cast<int>(rng.range(2, 4))) : op_single();
    }

    void add_snapshots(Rng& rng, std::vector<OpSpec>& ops)
    {
        if (!rng.chance(0.3))
            return;
        int k = static_cast<int>(rng.range(1, 2));
        for (int j = 0; j < k; ++j)
        {
            std::size_t pos = rng.below(ops.size() + 1);
            // a graph snapshot needs a direction-defining operator before it
            bool router_before = false;
            for (std::size_t q = 0; q < pos; ++q)
                if (ops[q].kind == OpKind::single || ops[q].kind == OpKind::single_par || ops[q].kind == OpKind::multi || ops[q].kind == OpKind::mst)
                    router_before = true;
            bool g = router_before && rng.chance(0.7);
            bool e = !g || rng.chance(0.4);
            ops.insert(ops.begin() + static_cast<long>(pos), op_snap("s" + std::to_string(j), g, e));
        }
    }

    // a random valid operator sequence (1-5 operators, validity decided by the rules of C20): reaches
    // combinations no hand-written family lists ([single, single, mst], [pflood, pflood, multi], [multi, single, mst, multi], ...)
    std::vector<OpSpec> gen_ops_random_valid(Rng& rng, bool need_resolver)
    {
        for (int tries = 0; tries < 200; ++tries)
        {
            std::vector<OpSpec> ops;
            int len = static_cast<int>(rng.range(1, 5));
            int dir = 0;  // 0 undefined, 1 single, 2 multi
            bool updated = false, resolver = false, ok = true;
            int nsnap = 0;
            for (int k = 0; k < len && ok; ++k)
            {
                switch (rng.below(7))
                {
                    case 0:
                        ops.push_back(op_single());
                        dir = 1;
                        updated = true;
                        break;
                    case 1:
                        ops.push_back(op_single_par(static_cast<int>(rng.range(2, 4))));
                        dir = 1;
                        updated = true;
                        break;
                    case 2:
                        ops.push_back(op_multi(rnd_p(rng)));
                        dir = 2;
                        updated = true;
                        break;
                    case 3:
                        ops.push_back(op_pflood());
                        resolver = true;
                        break;
                    case 4:
                        if (dir != 1)
                            ok = false;
                        else
                        {
                            ops.push_back(op_mst(rnd_bm(rng), rnd_rm(rng)));
                            resolver = true;
                        }
                        break;
                    case 5:
                        if (dir == 0)
                            ok = false;
                        else
                            ops.push_back(op_snap("g" + std::to_string(nsnap++), true, rng.chance(0.3)));
                        break;
                    default:
                        ops.push_back(op_snap("e" + std::to_string(nsnap++), false, true));
                        break;
                }
            }
            if (ok && updated && dir != 0 && (!need_resolver || resolver))
                return ops;
        }
        return { op_pflood(), op_single() };
    }

    std::vector<OpSpec> gen_ops(Rng& rng, const std::string& fam)
    {
        std::vector<OpSpec> ops;
        if (fam == "C04")
        {
            double u = rng.u01();
            if (u < 0.35)
                ops = { rnd_single(rng) };
            else if (u < 0.75)
                ops = { op_pflood(), rnd_single(rng) };
            else if (u < 0.85)
                ops = { rnd_single(rng), op_mst(rnd_bm(rng), rnd_rm(rng)), rnd_single(rng) };
            else if (u < 0.93)
                ops = { op_multi(rnd_p(rng)), rnd_single(rng) };
            else
                ops = { rnd_single(rng), rnd_single(rng) };
        }
        else if (fam == "C05")
        {
            double u = rng.u01();
            double p = rnd_p(rng);
            if (u < 0.35)
                ops = { op_multi(p) };
            else if (u < 0.7)
                ops = { op_pflood(), op_multi(p) };
            else if (u < 0.85)
                ops = { rnd_single(rng), op_mst(rnd_bm(rng), rnd_rm(rng)), op_multi(p) };
            else
                ops = { rnd_single(rng), op_multi(p) };
        }
        else if (fam == "resolver")
        {
            if (rng.chance(0.15))
                return gen_ops_random_valid(rng, true);
            double u = rng.u01();
            if (u < 0.2)
                ops = { op_pflood(), rnd_single(rng) };
            else if (u < 0.35)
                ops = { op_pflood(), op_multi(rnd_p(rng)) };
            else if (u < 0.7)
                ops = { rnd_single(rng), op_mst(rnd_bm(rng), rnd_rm(rng)) };
            else if (u < 0.8)
                ops = { rnd_single(rng), op_mst(rnd_bm(rng), rnd_rm(rng)), rnd_single(rng) };
            else if (u < 0.92)
                ops = { rnd_single(rng), op_mst(rnd_bm(rng), rnd_rm(rng)), op_multi(rnd_p(rng)) };
            else
                ops = { op_multi(rnd_p(rng)), rnd_single(rng), op_mst(rnd_bm(rng), rnd_rm(rng)) };  // multiple-direction storage, single state
        }
        else if (fam == "single_final")
        {
            double u = rng.u01();
            if (u < 0.3)
                ops = { rnd_single(rng) };
            else if (u < 0.5)
                ops = { op_pflood(), rnd_single(rng) };
            else if (u < 0.8)
                ops = { rnd_single(rng), op_mst(rnd_bm(rng), rnd_rm(rng)) };
            else if (u < 0.9)
                ops = { op_multi(rnd_p(rng)), rnd_single(rng) };
            else
                ops = { op_multi(rnd_p(rng)), rnd_single(rng), op_mst(rnd_bm(rng), rnd_rm(rng)) };
        }
        else
        {
            // any valid family
            if (rng.chance(0.3))
                return gen_ops_random_valid(rng, false);
            static const char* fams[] = { "C04", "C05", "resolver", "single_final" };
            ops = gen_ops(rng, fams[rng.below(4)]);
            return ops;
        }
        add_snapshots(rng, ops);
        return ops;
    }

    void hash_case(Runner& R, const Env& e, const std::vector<OpSpec>& ops, const std::vector<FlowInputs>& steps)
    {
        Hasher h;
        e.g.hash_into(h);
        for (auto& o : ops)
            o.hash_into(h);
        for (auto& s : steps)
            hash_inputs(h, s);
        R.set_case_hash(h.h);
    }

    // ------------------------------------------------------------------------------------ one flow case
    void flow_case(Runner& R, Rng& rng, const std::string& prop, std::size_t max_side, bool large = false)
    {
        large = large && large_available();
        Env env = large ? make_env_large(rng) : make_env(rng, max_side);
        if (large)
            R.count("large_grid_cases");
        std::string fam;
        bool no_masked_bl = false;
        if (prop == "C04")
            fam = "C04";
        else if (prop == "C05")
            fam = "C05";
        else if (prop == "C01" || prop == "C02")
        {
            fam = "resolver";
            no_masked_bl = true;
        }
        else if (prop == "C19")
            fam = "single_final";
        else
            fam = "any";  // C03, C06, all
        std::vector<OpSpec> ops = gen_ops(rng, fam);
        // masked base levels: legal for routers and for the spanning-tree resolver (a masked node is outside the graph, so a
        // masked base level is simply not there: the oracles treat it as masked). Priority-flood seeds its flood from every
        // base level including masked ones, and C01 / C02 do not say what that should mean: not generated for sequences with
        // priority-flood
        bool has_pflood = false;
        for (auto& o : ops)
            has_pflood = has_pflood || o.kind == OpKind::pflood;
        if (prop == "C01" || prop == "C02" || prop == "all")
            no_masked_bl = has_pflood;
        GraphBundle gb = build_graph(*env.grid, ops);
        graph_t& graph = *gb.graph;
        const int nsteps = static_cast<int>(rng.range(1, 3));
        std::vector<FlowInputs> steps;
        std::vector<double> clean_z;
        R.count("seq." + coarse_cfg(ops));
        R.count(std::string("final.") + (final_single(ops) ? "single" : "multi"));
        for (int s = 0; s < nsteps; ++s)
        {
            // inputs of this update: new field; mask / base levels change sometimes
            FlowInputs in;
            int force = -1;
            if ((prop == "C05" || prop == "C04") && rng.chance(0.2))
                force = rng.chance(0.5) ? 5 : 2;  // tiny / flat (incl. zero plateau filled by the library)
            if (large)
                // every update of a large case uses a long-valley surface (other parameters each time): generic field classes
                // would put tens of thousands of pits on a grid of this size, which only measures how long the resolvers take
                in = gen_inputs_long_path(rng, env);
            else if (s == 0)
                in = gen_inputs(rng, env, no_masked_bl, force);
            else
            {
                in = steps.back();
                in.z = clean_z;  // without the no-data values written under the previous mask
                int cls = force >= 0 ? force : static_cast<int>(rng.below(n_field_classes));
                const bool small_edit = rng.chance(0.12);
                if (small_edit)
                {
                    // same surface, a few more base levels or a few more masked nodes, nothing removed: an update that depends on
                    // less than its full current inputs (change detection, incremental short cuts) shows here
                    if (rng.chance(0.6))
                    {
                        for (long k = rng.range(1, 3); k > 0; --k)
                            in.bl.push_back(rng.below(env.R.n));
                        in.bl = sorted_unique(in.bl);
                        in.custom_bl = true;
                        in.bl_cls = "previous_plus_a_few_nodes";
                    }
                    else
                    {
                        if (in.mask.empty())
                            in.mask.assign(env.R.n, 0);
                        for (long k = rng.range(1, 3); k > 0; --k)
                            in.mask[rng.below(env.R.n)] = 1;
                        in.mask_cls = "previous_plus_a_few_nodes";
                    }
                    R.count("steps.small_edit_of_mask_or_base_levels");
                }
                else if (rng.chance(0.85))
                {
                    in.field_cls = field_class_name(cls);
                    in.z = gen_field_spec(rng, env.g, env.R, cls);
                }
                if (!small_edit && rng.chance(0.35))
                {
                    auto m = gen_mask(rng, env.g, env.R, in.mask_cls);
                    // a mask, once set, stays set: "no mask" afterwards means an all-false mask
                    if (m.empty() && !in.mask.empty())
                        m.assign(env.R.n, 0);
                    in.mask = m;
                }
                if (!small_edit && rng.chance(0.35))
                    in.custom_bl = gen_base_levels(rng, env.R, in.bl, in.bl_cls) || in.custom_bl;
                // base levels previously customised stay customised
                if (steps.back().custom_bl)
                    in.custom_bl = true;
                fix_domain(rng, env.R, in, no_masked_bl);
                // operator parameter changes through the shared pointers
                for (std::size_t k = 0; k < ops.size(); ++k)
                {
                    if (ops[k].kind == OpKind::multi && rng.chance(0.5))
                    {
                        ops[k].p = rnd_p(rng);
                        gb.multi(k)->m_slope_exp = ops[k].p;
                        R.count("param_change.slope_exp");
                    }
                    if (ops[k].kind == OpKind::mst && rng.chance(0.3))
                    {
                        ops[k].rm = rnd_rm(rng);
                        gb.mst(k)->m_route_method = ops[k].rm;
                        R.count("param_change.route_method");
                    }
                }
            }
            R.count("field." + in.field_cls);
            R.count("mask." + in.mask_cls);
            R.count("base_levels." + in.bl_cls);
            clean_z = in.z;
            if (!in.mask.empty() && rng.chance(0.25))
            {
                // masks exist to hide cells without data: whatever is stored there must not matter
                const double nodata = rng.pick(std::vector<double>{ -9999.0, -3.4e38, -1e300, 1e300, std::numeric_limits<double>::quiet_NaN(),
                                                                    std::numeric_limits<double>::infinity(), -std::numeric_limits<double>::infinity(), 0.0 });
                bool any = false;
                for (std::size_t i = 0; i < in.z.size(); ++i)
                    if (in.mask[i])
                    {
                        in.z[i] = nodata;
                        any = true;
                    }
                if (any)
                    R.count("inputs.nodata_under_mask");
            }
            steps.push_back(in);
            hash_case(R, env, ops, steps);
            if (R.args.dump)
            {
                std::printf("CASE %s\n", JObj().raw("grid", env.g.json(100000)).raw("operators", ops_json(ops)).i("update_no", s).raw("inputs", inputs_json(in, 100000)).str().c_str());
                continue;
            }
            apply_inputs(graph, env.g, in, &rng);
            arr_t zin = to_arr(env.g, in.z);
            const arr_t& hout = graph.update_routes(zin);
            std::vector<double> h = flat_vec(hout);
            GState S = extract(graph.impl());
            if (!S.shapes_ok)
            {
                R.violation("C06", "table_shapes", JObj().s("detail", S.shape_problem).str());
                return;
            }
            Ctx c{ R, env, ops, in, h, S, s, coarse_cfg(ops) };
            R.count("updates");
            if (R.want_sample())
                R.sample(JObj().raw("grid", env.g.json(40)).raw("operators", ops_json(ops)).i("update_no", s).raw("inputs", inputs_json(in, 40)).str());
            if (R.want("C06"))
            {
                check_c06(c);
                // graph snapshots are flow graphs: their tables must be mutually consistent as well
                for (auto& o : ops)
                    if (o.kind == OpKind::snap && o.save_graph)
                    {
                        GState SS = extract(graph.graph_snapshot(o.name).impl());
                        if (!SS.shapes_ok)
                            continue;
                        C06Stats st;
                        for (auto& kv : c06_violations(SS, st))
                            c.fail("C06", "snapshot:" + kv.first, "graph snapshot " + o.name + ": " + kv.second);
                        R.count("c06.snapshot_states_checked");
                    }
            }
            const SeqSem sem = analyze(ops);
            if (!sem.c01 && has_resolver(ops))
                R.count("c01.sequences_outside_the_statement");
            if (sem.c01 && R.want("C01"))
            {
                check_c01(c);
                // non-trivial: the input had a pit that is not a base level
                bool pit = false;
                for (std::size_t i = 0; i < S.n && !pit; ++i)
                {
                    if (c.masked(i) || c.is_bl(i))
                        continue;
                    bool lower = false;
                    for (auto& nb : env.R.adj[i])
                        if (!c.masked(nb.idx) && in.z[nb.idx] < in.z[i])
                            lower = true;
                    pit = !lower;
                }
                if (pit)
                {
                    R.nontrivial(true);
                    R.count("c01.states_with_input_pits");
                }
            }
            if (sem.c02 && R.want("C02"))
                check_c02(c, sem.fills);
            if (R.want("C03"))
            {
                check_c03(c, graph, rng);
                // every graph snapshot is a routed flow graph too
                for (auto& o : ops)
                    if (o.kind == OpKind::snap && o.save_graph)
                    {
                        graph_t& sg = graph.graph_snapshot(o.name);
                        GState SS = extract(sg.impl());
                        if (SS.shapes_ok)
                            check_c03(c, sg, rng, &SS);
                    }
            }
            int lr = last_router(ops);
            const bool router_saw_returned_elevation = !elevation_edited_after_last_router(ops);
            if (lr == 1 && router_saw_returned_elevation && R.want("C04"))
                check_c04(c);
            if (lr == 2 && router_saw_returned_elevation && R.want("C05"))
            {
                double p = 1;
                for (auto& o : ops)
                    if (o.kind == OpKind::multi)
                        p = o.p;
                check_c05(c, p);
            }
            if (final_single(ops) && R.want("C19"))
                check_c19(c, graph, s == nsteps - 1 ? 2 : 1);
            if (R.want("C19"))
            {
                // single-direction graph snapshots are flow graphs too
                for (auto& o : ops)
                    if (o.kind == OpKind::snap && o.save_graph)
                    {
                        graph_t& sg = graph.graph_snapshot(o.name);
                        if (!sg.impl().single_flow())
                            continue;
                        GState SS = extract(sg.impl());
                        if (SS.shapes_ok)
                            check_c19(c, sg, 1, &SS, "snapshot");
                    }
            }
        }
    }

    // ------------------------------------------------------------------------------------ one basin-graph case (C15)
    void basin_case(Runner& R, Rng& rng, std::size_t max_side)
    {
        Env env = make_env(rng, max_side);
        std::vector<OpSpec> ops = { rng.chance(0.2) ? op_single_par(static_cast<int>(rng.range(2, 4))) : op_single() };
        GraphBundle gb = build_graph(*env.grid, ops);
        graph_t& graph = *gb.graph;
        bgraph_t bk(graph.impl(), fs::mst_method::kruskal), bb(graph.impl(), fs::mst_method::boruvka);
        const int nsteps = static_cast<int>(rng.range(1, 4));
        std::vector<FlowInputs> steps;
        for (int s = 0; s < nsteps; ++s)
        {
            FlowInputs in;
            // ties / patterns favoured: many equal-weight edges, hub basins
            int force = rng.chance(0.5) ? (rng.chance(0.5) ? 1 : 7) : -1;
            if (s == 0)
                in = gen_inputs(rng, env, false, force);
            else
            {
                in = steps.back();
                int cls = force >= 0 ? force : static_cast<int>(rng.below(n_field_classes));
                in.field_cls = field_class_name(cls);
                in.z = gen_field_spec(rng, env.g, env.R, cls);
                if (rng.chance(0.3))
                {
                    auto m = gen_mask(rng, env.g, env.R, in.mask_cls);
                    if (m.empty() && !in.mask.empty())
                        m.assign(env.R.n, 0);
                    in.mask = m;
                }
                if (rng.chance(0.3))
                    in.custom_bl = gen_base_levels(rng, env.R, in.bl, in.bl_cls) || in.custom_bl;
                if (steps.back().custom_bl)
                    in.custom_bl = true;
                fix_domain(rng, env.R, in, false);
            }
            steps.push_back(in);
            hash_case(R, env, ops, steps);
            R.count("field." + in.field_cls);
            R.count("mask." + in.mask_cls);
            R.count("base_levels." + in.bl_cls);
            apply_inputs(graph, env.g, in, &rng);
            arr_t zin = to_arr(env.g, in.z);
            const arr_t& hout = graph.update_routes(zin);
            std::vector<double> h = flat_vec(hout);
            auto lab = flat_vec(graph.basins());
            GState S = extract(graph.impl());
            Ctx c{ R, env, ops, in, h, S, s, "basin_graph" };
            // an outer basin must exist (root): guaranteed by fix_domain (an unmasked base level is an outlet)
            bk.update_routes(zin);
            bb.update_routes(zin);
            if (R.want_sample())
                R.sample(JObj().raw("grid", env.g.json(40)).i("update_no", s).raw("inputs", inputs_json(in, 40)).i("basins", graph.impl().outlets().size()).str());
            auto wk = check_c15_one(c, graph, bk, "kruskal", lab);
            auto wb = check_c15_one(c, graph, bb, "boruvka", lab);
            if (!wk.empty() && !wb.empty() && wk != wb)
                c.fail("C15", "kruskal_boruvka_weights_differ", "kruskal " + jarr_num(wk, 40) + " boruvka " + jarr_num(wb, 40));
            R.count("c15.updates");
        }
    }
}

#ifdef VF_FUZZ
// coverage-guided campaign: libFuzzer mutates the decision stream of the generators; every byte string is a valid case judged by
// the same oracles as the generated cases (see runner.hpp fuzz_one and DESIGN.md section 14)
extern "C" int
LLVMFuzzerTestOneInput(const std::uint8_t* data, std::size_t size)
{
    return fuzz_one("h_flow", grid_name, "C06", data, size,
                    [](Runner& R, Rng& rng, const std::string& prop)
                    {
                        if (prop == "C15" || (prop == "all" && rng.chance(0.2)))
                            basin_case(R, rng, 9);
                        else
                            flow_case(R, rng, prop, 9);
                    });
}
#else
int
main(int argc, char** argv)
{
    Args a = parse_args(argc, argv);
    Runner R(a, "h_flow", grid_name);
    const bool thorough = a.tier == "thorough";
    std::size_t max_side = a.maxn ? static_cast<std::size_t>(a.maxn) : (thorough ? 28 : 11);
    const std::string prop = a.prop;
    return run_cases(R,
                     "flow:" + prop,
                     [&](Runner& R_, Rng& rng, long k)
                     {
                         std::size_t ms = max_side;
                         if (thorough && rng.chance(0.03))
                             ms = 64;  // a few large grids
                         else if (!thorough && (prop == "C15" || prop == "all") && rng.chance(0.04))
                             ms = 40;  // basin graphs large enough for hub basins that stay large after a contraction round
                         if (prop == "C15" || (prop == "all" && k % 5 == 4))
                             basin_case(R_, rng, ms);
                         else
                             flow_case(R_, rng, prop, ms, k % 1000 == 17);  // one very large grid per 1000 cases
                     });
}
#endif
